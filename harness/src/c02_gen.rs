//! C02 — generation of view compositions as stack programs (see lean/Driver/C02.lean).
//!
//! Terms of one grammar (leaf | adaptor(term) | stack/chain(term, …)) are generated together
//! with the shape the generator expects them to have (only used to choose mostly-valid
//! parameters; what the shape really is is decided by the code and by the model).

use crate::util::*;

type Shape = Vec<(String, usize)>;

const NAMES: [&str; 14] = ["a", "b", "c", "d", "e", "f", "row", "column", "x", "y", "z", "u", "v", "w"];
const GET_VIAS: [&str; 7] = ["ref", "mut", "access", "access_mut", "view_get_ref", "view_get", "boxed_ref"];
const SET_VIAS: [&str; 3] = ["mut", "access_mut", "view_get_ref_mut"];
const FIRST_VIAS: [&str; 6] = ["map_mut", "map", "map_with_index", "map_mut_with_index", "iter", "iter_reference_mut"];
/// whole-view consumers that cannot give up half way (asked with k = number of elements)
const WHOLE_VIAS: [&str; 19] = [
    "iter_reference", "iter_with_index", "iter_reference_with_index", "iter_reference_mut_with_index", "access_iter",
    "access_iter_reference", "access_iter_reference_mut", "first_value", "map_result", "map_with_index_result",
    "elementwise_left", "elementwise_right", "elementwise_reference_left", "elementwise_reference_right",
    "elementwise_with_index_left", "elementwise_reference_with_index_right", "eq_left", "eq_right", "eq_view",
];
const MAX: usize = usize::MAX;

#[derive(Clone)]
struct Term {
    /// operation lines (`leaf ?` has its id assigned at emission) and the expected lengths of the
    /// top view after the line (None: unknown / rejected)
    lines: Vec<(String, Option<Vec<usize>>)>,
    shape: Shape,
}

fn show(shape: &Shape) -> String {
    if shape.is_empty() {
        "-".into()
    } else {
        shape.iter().map(|(n, l)| format!("{}:{}", n, l)).collect::<Vec<_>>().join(",")
    }
}

fn lens(shape: &Shape) -> Vec<usize> {
    shape.iter().map(|d| d.1).collect()
}

fn names(shape: &Shape) -> Vec<String> {
    shape.iter().map(|d| d.0.clone()).collect()
}

fn join(v: &[String]) -> String {
    if v.is_empty() { "-".into() } else { v.join(",") }
}

fn fresh_name(g: &mut Gen, used: &[String]) -> String {
    let free: Vec<&str> = NAMES.iter().copied().filter(|n| !used.iter().any(|u| u == n)).collect();
    g.rng.pick(&free).to_string()
}

fn random_leaf_shape(g: &mut Gen, d: usize, max_product: usize) -> Shape {
    let mut pool: Vec<&str> = NAMES.to_vec();
    g.rng.shuffle(&mut pool);
    let mut prod = 1;
    let mut shape = vec![];
    for i in 0..d {
        let mut l = g.rng.range(1, 4);
        if prod * l > max_product {
            l = 1;
        }
        prod *= l;
        shape.push((pool[i].to_string(), l));
    }
    shape
}

fn leaf_term(g: &mut Gen, shape: Shape) -> Term {
    let via = match g.rng.below(8) {
        0 | 1 => " via=leaf+box",
        2 => " via=t_view_owned",
        3 => " via=leaf+mutview",
        _ => "",
    };
    Term { lines: vec![(format!("leaf ? {}{}", show(&shape), via), Some(lens(&shape)))], shape }
}

fn matrix_term(g: &mut Gen) -> Term {
    let rows = g.rng.range(1, 4);
    let cols = g.rng.range(1, 4);
    let (r, c) = if g.rng.chance(1, 2) {
        ("row".to_string(), "column".to_string())
    } else {
        let r = fresh_name(g, &[]);
        let c = fresh_name(g, &[r.clone()]);
        (r, c)
    };
    g.count("leaf.matrix");
    Term {
        lines: vec![(format!("matrix ? {} {} {},{}", rows, cols, r, c), Some(vec![rows, cols]))],
        shape: vec![(r, rows), (c, cols)],
    }
}

fn clip(start: usize, length: usize, max: usize) -> usize {
    start.saturating_add(length).min(max).saturating_sub(start)
}

/// a (start, length) for a dimension of length `l`: inside, clipped, empty, out of shape, huge
fn random_range(g: &mut Gen, l: usize) -> (usize, usize, &'static str) {
    match g.rng.below(12) {
        0 => (0, l, "full"),
        1 | 2 | 3 | 4 => {
            let start = g.rng.below(l);
            let length = g.rng.range(1, l - start);
            (start, length, "inside")
        }
        5 => (g.rng.below(l), l + g.rng.range(1, 3), "clipped"),
        6 => (g.rng.below(l + 1), 0, "empty"),
        7 => (l + g.rng.below(3), g.rng.range(1, 3), "outside"),
        8 => (g.rng.below(l), MAX, "length_max"),
        9 => (g.rng.range(1, l.max(1)), MAX - g.rng.below(2), "overflowing"),
        10 => (MAX - g.rng.below(2), g.rng.range(0, 2), "start_max"),
        _ => (g.rng.below(l), g.rng.range(1, l), "maybe_clipped"),
    }
}

fn range_via(g: &mut Gen) -> &'static str {
    *g.rng.pick(&[
        "from", "from_all", "tuple", "array", "stdrange", "from+box", "tv_owned", "tv_mut", "t_mut", "t_owned",
        "from+mutview", "tv_owned+box",
    ])
}

/// who is asked for a reversal / selection / expansion / reordering: the constructor, or the
/// convenience methods of TensorView and (right after a leaf) of Tensor
fn receiver_via(g: &mut Gen) -> &'static str {
    *g.rng.pick(&["", "", "tv_owned", "tv_mut", "t_mut", "t_owned", "x+box", "x+mutview", "tv_mut+box"])
}

fn with_via(line: String, via: &str) -> String {
    if via.is_empty() { line } else { format!("{} via={}", line, via) }
}

/// Applies one adaptor of `kind` to the term (valid parameters most of the time).
fn apply(g: &mut Gen, mut t: Term, kind: &str) -> Term {
    let d = t.shape.len();
    let shape = t.shape.clone();
    g.count(&format!("adaptor.{}", kind));
    match kind {
        "range" | "mask" => {
            let mut dims: Vec<usize> = (0..d).collect();
            g.rng.shuffle(&mut dims);
            let lo = if g.rng.chance(1, 10) { 0 } else { 1 };
            let k = if d == 0 { 0 } else { g.rng.range(lo, d.min(3)) };
            let mut parts = vec![];
            let mut new_shape = shape.clone();
            let mut valid = true;
            let strict = g.rng.chance(1, 4);
            for &dim in dims.iter().take(k) {
                let (mut start, mut length, mut class) = random_range(g, shape[dim].1);
                // a mask must leave something visible: prefer such masks two times in three
                if kind == "mask" && shape[dim].1 >= 2 && clip(start, length, shape[dim].1) >= shape[dim].1 && g.rng.chance(2, 3) {
                    start = g.rng.below(shape[dim].1);
                    length = g.rng.range(1, shape[dim].1 - 1);
                    if clip(start, length, shape[dim].1) >= shape[dim].1 {
                        start = 1;
                    }
                    class = "partial";
                }
                g.count(&format!("{}.param.{}", kind, class));
                parts.push(format!("{}:{}:{}", shape[dim].0, start, length));
                let clipped = clip(start, length, shape[dim].1);
                if strict && start.checked_add(length).map_or(true, |e| e > shape[dim].1) {
                    valid = false;
                }
                new_shape[dim].1 = if kind == "range" { clipped } else { shape[dim].1 - clipped };
                if new_shape[dim].1 == 0 {
                    valid = false;
                }
            }
            let line = format!(
                "{} {} kind={} via={}",
                kind,
                join(&parts),
                if strict { "strict" } else { "lenient" },
                range_via(g)
            );
            if valid {
                t.shape = new_shape;
                t.lines.push((line, Some(lens(&t.shape))));
            } else {
                // the constructor is expected to refuse: the top of the stack stays what it was
                g.count(&format!("{}.expected_reject", kind));
                t.lines.push((line, Some(lens(&t.shape))));
            }
        }
        "index" => {
            let mut dims: Vec<usize> = (0..d).collect();
            g.rng.shuffle(&mut dims);
            let hi = if g.rng.chance(1, 3) { d } else { 2 };
            let k = g.rng.range(1, d.min(hi));
            let mut chosen: Vec<usize> = dims.into_iter().take(k).collect();
            if g.rng.chance(1, 2) {
                chosen.sort();
            }
            let parts: Vec<String> = chosen.iter().map(|&dim| format!("{}:{}", shape[dim].0, g.rng.below(shape[dim].1))).collect();
            t.shape = (0..d).filter(|i| !chosen.contains(i)).map(|i| shape[i].clone()).collect();
            let via = receiver_via(g);
            t.lines.push((with_via(format!("index {}", join(&parts)), via), Some(lens(&t.shape))));
        }
        "expand" => {
            let k = g.rng.range(1, (6 - d).min(3));
            let mut used = names(&shape);
            let mut extra: Vec<(usize, String)> = vec![];
            for _ in 0..k {
                let n = fresh_name(g, &used);
                used.push(n.clone());
                // repeat an earlier position one time in three: several names at one position
                let pos = if !extra.is_empty() && g.rng.chance(1, 3) { extra[g.rng.below(extra.len())].0 } else { g.rng.range(0, d) };
                extra.push((pos, n));
            }
            if extra.iter().enumerate().any(|(i, e)| extra[..i].iter().any(|f| f.0 == e.0)) {
                g.count("expand.same_position");
            }
            let mut new_shape = vec![];
            for pos in 0..=d {
                for e in extra.iter().filter(|e| e.0 == pos) {
                    new_shape.push((e.1.clone(), 1));
                }
                if pos < d {
                    new_shape.push(shape[pos].clone());
                }
            }
            let parts: Vec<String> = extra.iter().map(|e| format!("{}:{}", e.0, e.1)).collect();
            t.shape = new_shape;
            let via = receiver_via(g);
            t.lines.push((with_via(format!("expand {}", join(&parts)), via), Some(lens(&t.shape))));
        }
        "matrixof" => {
            // a 2-dimensional view as a matrix (row major, column major or neither) as a tensor
            let (r, c) = if g.rng.chance(1, 3) {
                ("row".to_string(), "column".to_string())
            } else {
                let r = fresh_name(g, &[]);
                let c = fresh_name(g, &[r.clone()]);
                (r, c)
            };
            if g.rng.chance(1, 2) {
                // matrix-side adaptors between the two conversions
                let n = g.rng.range(1, 3);
                let mut dims = (shape[0].1, shape[1].1);
                let mut ops: Vec<String> = vec![];
                for _ in 0..n {
                    if g.rng.chance(1, 2) {
                        let (rs, rl, _) = if g.rng.chance(1, 3) { (0, dims.0, "") } else { random_range(g, dims.0.max(1)) };
                        let (cs, cl, _) = if g.rng.chance(1, 3) { (0, dims.1, "") } else { random_range(g, dims.1.max(1)) };
                        dims = (clip(rs, rl, dims.0), clip(cs, cl, dims.1));
                        ops.push(format!("range:{}:{}:{}:{}", rs, rl, cs, cl));
                        g.count("matrixof.op.range");
                    } else {
                        let (fr, fc) = (g.rng.below(2), g.rng.below(2));
                        ops.push(format!("reverse:{}:{}", fr, fc));
                        g.count(&format!("matrixof.op.reverse.{}{}", fr, fc));
                    }
                }
                let via = *g.rng.pick(&["with_names", "from", "with_names+direct", "from+direct", "with_names+box"]);
                let line = format!("matrixof {},{} ops={} via={}", r, c, ops.join(";"), via);
                if dims.0 > 0 && dims.1 > 0 {
                    t.shape = vec![(r.clone(), dims.0), (c.clone(), dims.1)];
                } else {
                    g.count("matrixof.expected_reject");
                }
                t.lines.push((line, Some(lens(&t.shape))));
            } else {
                t.shape = vec![(r.clone(), shape[0].1), (c.clone(), shape[1].1)];
                let via = *g.rng.pick(&["with_names", "from", "with_names+mbox", "from+mrange", "with_names+mrange", "with_names+box", "with_names+dyn"]);
                t.lines.push((format!("matrixof {},{} via={}", r, c, via), Some(lens(&t.shape))));
            }
        }
        "rename" => {
            let mut pool: Vec<&str> = NAMES.to_vec();
            g.rng.shuffle(&mut pool);
            let new_names: Vec<String> = (0..d).map(|i| pool[i].to_string()).collect();
            t.shape = (0..d).map(|i| (new_names[i].clone(), shape[i].1)).collect();
            t.lines.push((format!("rename {}", join(&new_names)), Some(lens(&t.shape))));
            // the setter of the adaptor just built: refused (a repeated name), then accepted
            if g.rng.chance(1, 2) {
                g.count("mutator.set_names");
                if d >= 2 {
                    let mut bad = new_names.clone();
                    let i = g.rng.below(d);
                    let mut j = g.rng.below(d);
                    if j == i {
                        j = (i + 1) % d;
                    }
                    bad[j] = bad[i].clone();
                    if g.rng.chance(1, 2) {
                        // every name fresh except the repeated pair
                        for k in 0..d {
                            if k != i && k != j {
                                bad[k] = pool[d + k].to_string();
                            }
                        }
                    }
                    t.lines.push(("get_names".into(), None));
                    t.lines.push((format!("set_names {}", join(&bad)), Some(lens(&t.shape))));
                    g.count("mutator.set_names.refused");
                }
                g.rng.shuffle(&mut pool);
                let newer: Vec<String> = (0..d).map(|i| pool[i].to_string()).collect();
                t.shape = (0..d).map(|i| (newer[i].clone(), shape[i].1)).collect();
                t.lines.push(("get_names".into(), None));
                t.lines.push((format!("set_names {}", join(&newer)), Some(lens(&t.shape))));
            }
        }
        "reverse" => {
            let subset: Vec<String> = shape.iter().filter(|_| g.rng.chance(1, 2)).map(|x| x.0.clone()).collect();
            let mut subset = subset;
            g.rng.shuffle(&mut subset);
            let via = receiver_via(g);
            t.lines.push((with_via(format!("reverse {}", join(&subset)), via), Some(lens(&t.shape))));
        }
        "access" | "transpose" => {
            let mut perm: Vec<usize> = (0..d).collect();
            g.rng.shuffle(&mut perm);
            let involution = (0..d).all(|i| perm[perm[i]] == i);
            if !involution {
                g.count(&format!("{}.non_involutive", kind));
            }
            let req: Vec<String> = perm.iter().map(|&p| shape[p].0.clone()).collect();
            t.shape = if kind == "access" {
                perm.iter().map(|&p| shape[p].clone()).collect()
            } else {
                (0..d).map(|i| (shape[i].0.clone(), shape[perm[i]].1)).collect()
            };
            let via = if kind == "access" && g.rng.chance(1, 2) {
                format!(" via={}", *g.rng.pick(&["tv_owned", "tv_mut", "t_owned", "t_mut", "tv_owned+mutview"]))
            } else if g.rng.chance(1, 2) {
                " via=try_from".to_string()
            } else {
                String::new()
            };
            t.lines.push((format!("{} {}{}", kind, join(&req), via), Some(lens(&t.shape))));
        }
        _ => unreachable!(),
    }
    t
}

/// A TensorRename / TensorReverse over the term whose source is then swapped (through
/// `source_ref_mut`) with a leaf of another shape of the same dimensionality.
fn swap_source(g: &mut Gen, t: Term) -> Term {
    let d = t.shape.len();
    g.count("mutator.swap_source");
    let other_shape = random_leaf_shape(g, d, 96);
    let other = leaf_term(g, other_shape.clone());
    let mut lines = other.lines.clone();
    lines.extend(t.lines.iter().cloned());
    if g.rng.chance(1, 2) {
        let mut pool: Vec<&str> = NAMES.to_vec();
        g.rng.shuffle(&mut pool);
        let new_names: Vec<String> = (0..d).map(|i| pool[i].to_string()).collect();
        let before: Vec<usize> = lens(&t.shape);
        lines.push((format!("rename {}", join(&new_names)), Some(before)));
        let shape: Shape = (0..d).map(|i| (new_names[i].clone(), other_shape[i].1)).collect();
        lines.push(("swap_source".into(), Some(lens(&shape))));
        if d >= 2 && g.rng.chance(1, 2) {
            let mut bad = new_names.clone();
            bad[0] = bad[d - 1].clone();
            lines.push((format!("set_names {}", join(&bad)), Some(lens(&shape))));
        }
        Term { lines, shape }
    } else {
        let subset: Vec<String> = t.shape.iter().filter(|_| g.rng.chance(1, 2)).map(|x| x.0.clone()).collect();
        lines.push((format!("reverse {}", join(&subset)), Some(lens(&t.shape))));
        lines.push(("swap_source".into(), Some(lens(&other_shape))));
        Term { lines, shape: other_shape }
    }
}

/// `n` copies of the term's program combined with stack / chain.
fn combine(g: &mut Gen, t: Term, kind: &str) -> Term {
    let d = t.shape.len();
    let n = g.rng.range(1, 4);
    g.count(&format!("adaptor.{}", kind));
    g.count(&format!("{}.sources={}", kind, n));
    let mut lines = vec![];
    let via = if n >= 2 && g.rng.chance(1, 2) { "tuple" } else { "array" };
    if kind == "stack" {
        for _ in 0..n {
            lines.extend(t.lines.iter().cloned());
        }
        let pos = g.rng.range(0, d);
        let name = fresh_name(g, &names(&t.shape));
        let mut shape = t.shape.clone();
        shape.insert(pos, (name.clone(), n));
        lines.push((format!("stack {} {}:{} via={}", n, pos, name, via), Some(lens(&shape))));
        Term { lines, shape }
    } else {
        let along = g.rng.below(d);
        let mut total = 0;
        for k in 0..n {
            lines.extend(t.lines.iter().cloned());
            let l = t.shape[along].1;
            // shorten some of the sources along the chained dimension so the lengths differ
            if l > 1 && (k > 0 || g.rng.chance(1, 2)) && g.rng.chance(2, 3) {
                let keep = g.rng.range(1, l - 1);
                let start = g.rng.below(l - keep + 1);
                let mut ls = lens(&t.shape);
                ls[along] = keep;
                lines.push((format!("range {}:{}:{}", t.shape[along].0, start, keep), Some(ls)));
                total += keep;
                g.count("chain.source_shortened");
            } else {
                total += l;
            }
        }
        let mut shape = t.shape.clone();
        shape[along].1 = total;
        lines.push((format!("chain {} {} via={}", n, shape[along].0, via), Some(lens(&shape))));
        Term { lines, shape }
    }
}

fn gen_term(g: &mut Gen, depth: usize) -> Term {
    if depth == 0 {
        if g.rng.chance(1, 8) {
            return matrix_term(g);
        }
        let d = *g.rng.pick(&[0, 1, 1, 2, 2, 2, 3, 3, 3, 4, 4, 5, 6]);
        let shape = random_leaf_shape(g, d, 96);
        g.count(&format!("leaf.D={}", d));
        return leaf_term(g, shape);
    }
    let t = gen_term(g, depth - 1);
    let d = t.shape.len();
    loop {
        let kind = *g.rng.pick(&["range", "mask", "index", "expand", "rename", "reverse", "access", "transpose", "stack", "chain", "matrixof", "swap_source"]);
        let ok = match kind {
            "matrixof" => d == 2,
            "index" | "chain" => d >= 1,
            "expand" | "stack" => d < 6,
            // a mask needs some dimension it can leave non empty
            "mask" => t.shape.iter().any(|x| x.1 >= 2),
            _ => true,
        };
        if !ok {
            continue;
        }
        return match kind {
            "stack" | "chain" => {
                // keep the programs small: at most ~40 lines per case
                if t.lines.len() > 12 { continue; }
                combine(g, t, kind)
            }
            "swap_source" => {
                if t.lines.len() > 20 { continue; }
                swap_source(g, t)
            }
            _ => apply(g, t, kind),
        };
    }
}

fn cartesian(choices: &[Vec<usize>]) -> Vec<Vec<usize>> {
    let mut out: Vec<Vec<usize>> = vec![vec![]];
    for c in choices {
        let mut next = vec![];
        for p in &out {
            for &x in c {
                let mut q = p.clone();
                q.push(x);
                next.push(q);
            }
        }
        out = next;
    }
    out
}

fn show_idx(idx: &[usize]) -> String {
    show_usizes(idx)
}

/// questions about a view whose lengths are expected to be `ls`
fn probes(g: &mut Gen, ls: &[usize], full: bool) {
    let d = ls.len();
    g.op("shape".into());
    g.op("get_names".into());
    let which = if g.rng.chance(1, 2) { "ref" } else { "owned" };
    g.op(format!("sources via={}", which));
    if full || g.rng.chance(1, 3) {
        g.op("sources via=owned".into());
        g.op("sources via=ref".into());
    }
    let how = if g.rng.chance(1, 2) { "display" } else { "display via=access" };
    g.op(how.into());
    if full || g.rng.chance(1, 3) {
        // a copy in another order: the names are not known here, `copy` of the view's own order
        // is asked by the sections that know them
        g.op("first 1 via=first_value".into());
    }
    for n in ["a", "b", "x", "row", "zz", "r", "ro", "rows", "colum", "column", "_empty_", "c"] {
        if full || g.rng.chance(1, 4) {
            g.op(format!("length_of {}", n));
        }
    }
    g.op("layout".into());
    g.op("memorder".into());
    let product: usize = ls.iter().product();
    // a closure that gives up at its k-th call, then the survivor is used as before
    if product <= 4096 {
        for _ in 0..(if full { 2 } else { 1 }) {
            let k = match g.rng.below(4) {
                0 => 0,
                1 => product,
                2 => product.saturating_sub(1),
                _ => g.rng.below(product.min(24) + 1),
            };
            let via = *g.rng.pick(&FIRST_VIAS);
            g.op(format!("first {} via={}", k, via));
            g.count(&format!("first.{}", via));
        }
        // a whole-view consumer against the logical content
        for _ in 0..(if full { 3 } else { 1 }) {
            let via = *g.rng.pick(&WHOLE_VIAS);
            g.op(format!("first {} via={}", if via == "first_value" { 1 } else { product }, via));
            g.count(&format!("whole.{}", via));
        }
    }
    // in range
    let inside: Vec<Vec<usize>> = if product <= if full { 128 } else { 48 } {
        cartesian(&ls.iter().map(|&l| (0..l).collect()).collect::<Vec<_>>())
    } else {
        (0..48).map(|_| ls.iter().map(|&l| g.rng.below(l)).collect()).collect()
    };
    for idx in &inside {
        let via = match g.rng.below(8) {
            0 => "unchecked",
            1 => "unchecked_mut",
            _ => *g.rng.pick(&GET_VIAS),
        };
        g.op(format!("get {} via={}", show_idx(idx), via));
        g.count("get.in_bounds");
        if g.rng.chance(1, if full { 2 } else { 6 }) {
            let via = if g.rng.chance(1, 6) { "unchecked_mut" } else { *g.rng.pick(&SET_VIAS) };
            g.op(format!("set {} via={}", show_idx(idx), via));
            g.count("set.in_bounds");
        }
    }
    // the ring of out-of-range coordinates
    if d > 0 {
        let mut ring: Vec<Vec<usize>> = vec![];
        for dim in 0..d {
            for (bad, class) in [(ls[dim], "len"), (ls[dim] + 1, "len+1"), (MAX, "max"), (MAX - 1, "max-1")] {
                let reps = if full { 2 } else { 1 };
                for _ in 0..reps {
                    let mut idx: Vec<usize> = ls.iter().map(|&l| g.rng.below(l)).collect();
                    idx[dim] = bad;
                    ring.push(idx);
                    g.count(&format!("get.out_of_bounds.{}", class));
                }
            }
        }
        ring.push(vec![MAX; d]);
        ring.push(ls.to_vec());
        for _ in 0..2 {
            ring.push(ls.iter().map(|&l| match g.rng.below(4) { 0 => l, 1 => MAX, _ => g.rng.below(l) }).collect());
        }
        for idx in ring {
            let via = *g.rng.pick(&GET_VIAS);
            g.op(format!("get {} via={}", show_idx(&idx), via));
            if g.rng.chance(1, 4) {
                let via = *g.rng.pick(&SET_VIAS);
                g.op(format!("set {} via={}", show_idx(&idx), via));
                g.count("set.out_of_bounds");
            }
        }
    }
}

fn emit(g: &mut Gen, t: &Term, full: bool, light_intermediate: bool) {
    g.op("@ case".into());
    g.count("case");
    let mut leaf_id = 0;
    let n = t.lines.len();
    for (k, (line, ls)) in t.lines.iter().enumerate() {
        let line = if line.contains(" ? ") {
            leaf_id += 1;
            line.replacen(" ? ", &format!(" {} ", leaf_id), 1)
        } else {
            line.clone()
        };
        g.op(line);
        if let Some(ls) = ls {
            if k + 1 == n {
                probes(g, ls, full);
            } else if light_intermediate && !ls.is_empty() {
                // two quick looks at every intermediate view
                let idx: Vec<usize> = ls.iter().map(|&l| g.rng.below(l)).collect();
                g.op(format!("get {} via=ref", show_idx(&idx)));
                let mut idx: Vec<usize> = ls.iter().map(|&l| g.rng.below(l)).collect();
                let dim = g.rng.below(ls.len());
                idx[dim] = *g.rng.pick(&[ls[dim], MAX]);
                g.op(format!("get {} via=ref", show_idx(&idx)));
            }
        } else if k + 1 == n {
            g.op("shape".into());
        }
    }
}

fn leaf_of(shape: &[(&str, usize)]) -> Term {
    let shape: Shape = shape.iter().map(|(n, l)| (n.to_string(), *l)).collect();
    Term { lines: vec![(format!("leaf ? {}", show(&shape)), Some(lens(&shape)))], shape }
}

fn with_line(t: &Term, line: String, shape: Option<Shape>) -> Term {
    let mut t = t.clone();
    match shape {
        Some(s) => {
            t.lines.push((line, Some(lens(&s))));
            t.shape = s;
        }
        None => t.lines.push((line, None)),
    }
    t
}

/// every parameter of every adaptor over a few small leaves (depth 1)
fn exhaustive(g: &mut Gen) {
    let mut leaves: Vec<Vec<(&str, usize)>> = vec![vec![("a", 3)], vec![("a", 2), ("b", 3)], vec![("a", 2), ("b", 1), ("c", 2)]];
    if g.thorough {
        leaves.push(vec![("a", 1)]);
        leaves.push(vec![("a", 2), ("b", 2), ("c", 1), ("d", 2)]);
        leaves.push(vec![]);
    }
    for leaf in &leaves {
        let base = leaf_of(leaf);
        let d = leaf.len();
        // ranges and masks: every start / length around the dimension, and the huge ones
        for dim in 0..d {
            let l = leaf[dim].1;
            let mut params: Vec<(usize, usize)> = vec![];
            for start in 0..=l + 1 {
                for length in 0..=l + 2 {
                    params.push((start, length));
                }
            }
            params.extend_from_slice(&[(0, MAX), (1, MAX), (l - 1, MAX), (l, MAX), (MAX, 0), (MAX, 1), (MAX, MAX), (MAX - 1, 1), (MAX - 1, 2), (1, MAX - 1), (2, MAX - 1)]);
            for (start, length) in params {
                for kind in ["range", "mask"] {
                    for strict in [false, true] {
                        if strict && !g.thorough && g.rng.chance(1, 2) {
                            continue;
                        }
                        let clipped = clip(start, length, l);
                        let new_len = if kind == "range" { clipped } else { l - clipped };
                        let exceeds = start.checked_add(length).map_or(true, |e| e > l);
                        let ok = new_len > 0 && !(strict && exceeds);
                        let mut shape = base.shape.clone();
                        shape[dim].1 = new_len;
                        let line = format!("{} {}:{}:{} kind={} via={}", kind, leaf[dim].0, start, length, if strict { "strict" } else { "lenient" }, range_via(g));
                        let t = with_line(&base, line, if ok { Some(shape) } else { None });
                        g.count(&format!("exhaustive.{}", kind));
                        emit(g, &t, true, false);
                    }
                }
            }
        }
        // every selectable index (and the first unselectable one), singles and pairs
        for dim in 0..d {
            for i in 0..=leaf[dim].1 {
                let ok = i < leaf[dim].1;
                let shape: Shape = (0..d).filter(|&k| k != dim).map(|k| base.shape[k].clone()).collect();
                let via = receiver_via(g);
                let t = with_line(&base, with_via(format!("index {}:{}", leaf[dim].0, i), via), if ok { Some(shape) } else { None });
                g.count("exhaustive.index");
                emit(g, &t, true, false);
            }
            for dim2 in 0..d {
                if dim2 == dim {
                    continue;
                }
                let shape: Shape = (0..d).filter(|&k| k != dim && k != dim2).map(|k| base.shape[k].clone()).collect();
                let i = g.rng.below(leaf[dim].1);
                let j = g.rng.below(leaf[dim2].1);
                let t = with_line(&base, format!("index {}:{},{}:{}", leaf[dim].0, i, leaf[dim2].0, j), Some(shape));
                g.count("exhaustive.index_pair");
                emit(g, &t, true, false);
            }
        }
        // every insertion position, one and two extra dimensions (also two at one position)
        for p in 0..=d + 1 {
            let mut shape = base.shape.clone();
            let ok = p <= d;
            if ok {
                shape.insert(p, ("x".into(), 1));
            }
            let via = receiver_via(g);
            let t = with_line(&base, with_via(format!("expand {}:x", p), via), if ok { Some(shape) } else { None });
            g.count("exhaustive.expand1");
            emit(g, &t, true, false);
            for q in 0..=d {
                if p > d {
                    continue;
                }
                let mut shape: Shape = vec![];
                for pos in 0..=d {
                    if p == pos {
                        shape.push(("x".into(), 1));
                    }
                    if q == pos {
                        shape.push(("y".into(), 1));
                    }
                    if pos < d {
                        shape.push(base.shape[pos].clone());
                    }
                }
                let t = with_line(&base, format!("expand {}:x,{}:y", p, q), Some(shape));
                g.count("exhaustive.expand2");
                emit(g, &t, true, false);
            }
        }
        // the setter of TensorRename: every pair of positions made equal (refused), every rotation
        // of fresh names (accepted); and the source swapped for each of the other small leaves
        if d >= 1 {
            let fresh: Vec<String> = (0..d).map(|i| NAMES[8 + i % 6].to_string()).collect();
            let renamed: Shape = (0..d).map(|i| (fresh[i].clone(), leaf[i].1)).collect();
            let r = with_line(&base, format!("rename {}", join(&fresh)), Some(renamed.clone()));
            for i in 0..d {
                for j in 0..d {
                    if i == j {
                        continue;
                    }
                    let mut bad = fresh.clone();
                    bad[j] = bad[i].clone();
                    let mut t = r.clone();
                    t.lines.push((format!("set_names {}", join(&bad)), Some(lens(&renamed))));
                    // an existing source name repeated is just as bad
                    let mut bad2: Vec<String> = leaf.iter().map(|x| x.0.to_string()).collect();
                    bad2[j] = bad2[i].clone();
                    t.lines.push((format!("set_names {}", join(&bad2)), Some(lens(&renamed))));
                    g.count("exhaustive.set_names_refused");
                    emit(g, &t, true, false);
                }
            }
            for rot in 0..d {
                let names2: Vec<String> = (0..d).map(|i| fresh[(i + rot) % d].clone()).collect();
                let sh: Shape = (0..d).map(|i| (names2[i].clone(), leaf[i].1)).collect();
                let mut t = r.clone();
                t.lines.push((format!("set_names {}", join(&names2)), Some(lens(&sh))));
                // and back to the source's own names
                let own: Vec<String> = leaf.iter().map(|x| x.0.to_string()).collect();
                t.lines.push((format!("set_names {}", join(&own)), Some(lens(&base.shape))));
                g.count("exhaustive.set_names_accepted");
                emit(g, &t, true, false);
            }
            for kind in ["rename", "reverse"] {
                let other: Shape = (0..d).map(|i| (NAMES[2 + i].to_string(), 1 + (leaf[i].1 + i) % 3)).collect();
                let mut t = Term { lines: vec![(format!("leaf ? {}", show(&other)), Some(lens(&other)))], shape: other.clone() };
                t.lines.extend(base.lines.iter().cloned());
                if kind == "rename" {
                    t.lines.push((format!("rename {}", join(&fresh)), Some(lens(&base.shape))));
                    let sh: Shape = (0..d).map(|i| (fresh[i].clone(), other[i].1)).collect();
                    t.lines.push(("swap_source".into(), Some(lens(&sh))));
                } else {
                    t.lines.push((format!("reverse {}", leaf[d - 1].0), Some(lens(&base.shape))));
                    t.lines.push(("swap_source".into(), Some(lens(&other))));
                }
                g.count("exhaustive.swap_source");
                emit(g, &t, true, false);
            }
        }
        // every subset of reversed dimensions
        for bits in 0..(1usize << d) {
            let subset: Vec<String> = (0..d).filter(|k| bits >> k & 1 == 1).map(|k| leaf[k].0.to_string()).collect();
            for via in ["", "tv_owned", "tv_mut", "t_mut", "t_owned"] {
                let t = with_line(&base, with_via(format!("reverse {}", join(&subset)), via), Some(base.shape.clone()));
                g.count("exhaustive.reverse");
                emit(g, &t, true, false);
            }
            let t = with_line(&base, format!("reverse {}", join(&subset)), Some(base.shape.clone()));
            g.count("exhaustive.reverse");
            emit(g, &t, true, false);
        }
        // every permutation
        for perm in permutations(d) {
            let req: Vec<String> = perm.iter().map(|&p| leaf[p].0.to_string()).collect();
            let a: Shape = perm.iter().map(|&p| base.shape[p].clone()).collect();
            let tr: Shape = (0..d).map(|i| (base.shape[i].0.clone(), base.shape[perm[i]].1)).collect();
            for via in ["", "tv_owned", "tv_mut", "t_mut", "t_owned"] {
                emit(g, &with_line(&base, with_via(format!("access {}", join(&req)), via), Some(a.clone())), true, false);
            }
            emit(g, &with_line(&base, format!("transpose {}", join(&req)), Some(tr.clone())), true, false);
            // a transposition renamed and accessed again: layouts through three adaptors
            let renamed: Shape = (0..d).map(|i| (NAMES[8 + i % 6].to_string(), tr[i].1)).collect();
            let t = with_line(&base, format!("transpose {}", join(&req)), Some(tr));
            let t = with_line(&t, format!("rename {}", join(&names(&renamed))), Some(renamed.clone()));
            let back: Shape = perm.iter().map(|&p| renamed[p].clone()).collect();
            let t = with_line(&t, format!("access {}", join(&names(&back))), Some(back));
            emit(g, &t, true, false);
            g.count("exhaustive.permutation");
        }
        // matrix-backed over a tensor view: every 2-dimensional reordering as a matrix as a tensor
        // (row major, column major, and neither), then renamed / reordered / transposed again
        if d == 2 {
            let n0 = leaf[0].0.to_string();
            let n1 = leaf[1].0.to_string();
            let (l0, l1) = (leaf[0].1, leaf[1].1);
            let pre: Vec<(Vec<String>, Shape)> = vec![
                (vec![], base.shape.clone()),
                (vec![format!("access {},{}", n1, n0)], vec![(n1.clone(), l1), (n0.clone(), l0)]),
                (vec![format!("transpose {},{}", n1, n0)], vec![(n0.clone(), l1), (n1.clone(), l0)]),
                (vec![format!("access {},{}", n1, n0), format!("transpose {},{}", n0, n1)], vec![(n1.clone(), l0), (n0.clone(), l1)]),
                (vec![format!("rename {},{}", n1, n0), format!("access {},{}", n0, n1)], vec![(n0.clone(), l1), (n1.clone(), l0)]),
                (vec![format!("reverse {}", n0)], base.shape.clone()),
                (vec![format!("range {}:0:{}", n0, l0)], base.shape.clone()),
            ];
            for (ops, sh) in &pre {
                for via in ["with_names", "with_names+mbox", "with_names+mrange"] {
                    for post in ["", "access y,x", "transpose y,x", "rename p,q"] {
                        let mut t = base.clone();
                        let mut cur = base.shape.clone();
                        for (k, op) in ops.iter().enumerate() {
                            if k + 1 == ops.len() {
                                cur = sh.clone();
                            }
                            t = with_line(&t, op.clone(), Some(cur.clone()));
                        }
                        let ms: Shape = vec![("x".into(), sh[0].1), ("y".into(), sh[1].1)];
                        t = with_line(&t, format!("matrixof x,y via={}", via), Some(ms.clone()));
                        let fin: Shape = match post {
                            "access y,x" => vec![ms[1].clone(), ms[0].clone()],
                            "transpose y,x" => vec![("x".into(), ms[1].1), ("y".into(), ms[0].1)],
                            "rename p,q" => vec![("p".into(), ms[0].1), ("q".into(), ms[1].1)],
                            _ => ms.clone(),
                        };
                        if !post.is_empty() {
                            // look at the matrix-backed view itself first
                            t.lines.push(("layout".into(), None));
                            t.lines.push(("memorder".into(), None));
                            t = with_line(&t, post.to_string(), Some(fin));
                        }
                        g.count("exhaustive.matrixof");
                        emit(g, &t, true, false);
                    }
                }
            }
            // names the library must refuse
            emit(g, &with_line(&base, "matrixof x,x".into(), None), false, false);
        }
        // 1..4 stacked sources at every position
        for n in 1..=4usize {
            for p in 0..=d + 1 {
                if d + 1 > 6 {
                    continue;
                }
                let mut lines = vec![];
                for _ in 0..n {
                    lines.extend(base.lines.iter().cloned());
                }
                let ok = p <= d;
                let mut shape = base.shape.clone();
                if ok {
                    shape.insert(p, ("s".into(), n));
                }
                for via in ["array", "tuple"] {
                    let mut t = Term { lines: lines.clone(), shape: shape.clone() };
                    t.lines.push((format!("stack {} {}:s via={}", n, p, via), if ok { Some(lens(&shape)) } else { None }));
                    g.count("exhaustive.stack");
                    emit(g, &t, true, false);
                }
            }
            // 1..4 chained sources of differing lengths along every dimension
            for along in 0..d {
                let mut lines = vec![];
                let mut total = 0;
                for k in 0..n {
                    let l = 1 + (k * 2 + along) % 3;
                    let mut s = base.shape.clone();
                    s[along].1 = l;
                    lines.push((format!("leaf ? {}", show(&s)), Some(lens(&s))));
                    total += l;
                }
                let mut shape = base.shape.clone();
                shape[along].1 = total;
                for via in ["array", "tuple"] {
                    let mut t = Term { lines: lines.clone(), shape: shape.clone() };
                    t.lines.push((format!("chain {} {} via={}", n, leaf[along].0, via), Some(lens(&shape))));
                    g.count("exhaustive.chain");
                    emit(g, &t, true, false);
                }
            }
        }
    }
}

/// Every method of `TensorRef` / `TensorMut` (checked / unchecked × shared / mutable, and the
/// forms that go through `TensorAccess`, `TensorView`, a boxed borrow) at every coordinate of the
/// view, every whole-view consumer, the layout claim and its walk.
fn probes_methods(g: &mut Gen, ls: &[usize]) {
    let d = ls.len();
    g.op("shape".into());
    g.op("layout".into());
    g.op("memorder".into());
    let product: usize = ls.iter().product();
    let inside: Vec<Vec<usize>> = if product <= 48 {
        cartesian(&ls.iter().map(|&l| (0..l).collect()).collect::<Vec<_>>())
    } else {
        (0..32).map(|_| ls.iter().map(|&l| g.rng.below(l)).collect()).collect()
    };
    for idx in &inside {
        for via in ["ref", "mut", "unchecked", "unchecked_mut", "access", "access_mut", "view_get_ref", "view_get", "boxed_ref"] {
            g.op(format!("get {} via={}", show_idx(idx), via));
        }
        g.count_n("methods.get", 9);
        let via = *g.rng.pick(&["mut", "unchecked_mut", "access_mut", "view_get_ref_mut"]);
        g.op(format!("set {} via={}", show_idx(idx), via));
    }
    for dim in 0..d {
        for bad in [ls[dim], MAX] {
            let mut idx: Vec<usize> = ls.iter().map(|&l| g.rng.below(l)).collect();
            idx[dim] = bad;
            for via in ["ref", "mut", "access", "access_mut", "boxed_ref"] {
                g.op(format!("get {} via={}", show_idx(&idx), via));
            }
            g.op(format!("set {} via=mut", show_idx(&idx)));
        }
    }
    if product <= 4096 {
        for via in WHOLE_VIAS {
            g.op(format!("first {} via={}", if via == "first_value" { 1 } else { product }, via));
        }
        for via in FIRST_VIAS {
            let k = g.rng.below(product + 1);
            g.op(format!("first {} via={}", k, via));
        }
        g.op("display".into());
    }
}

fn emit_methods(g: &mut Gen, t: &Term) {
    g.op("@ case".into());
    g.count("case");
    g.count("case.methods");
    let mut leaf_id = 0;
    let n = t.lines.len();
    for (k, (line, ls)) in t.lines.iter().enumerate() {
        let line = if line.contains(" ? ") {
            leaf_id += 1;
            line.replacen(" ? ", &format!(" {} ", leaf_id), 1)
        } else {
            line.clone()
        };
        g.op(line);
        if k + 1 == n {
            match ls {
                Some(ls) => probes_methods(g, ls),
                None => g.op("shape".into()),
            }
        }
    }
}

const PAIR_KINDS: [&str; 11] = ["range", "mask", "index", "expand", "rename", "reverse", "access", "transpose", "stack", "chain", "matrixof"];

fn apply_kind(g: &mut Gen, t: Term, kind: &str) -> Option<Term> {
    let d = t.shape.len();
    let ok = match kind {
        "matrixof" => d == 2,
        "index" | "chain" => d >= 1,
        "expand" | "stack" => d < 6,
        "mask" => t.shape.iter().any(|x| x.1 >= 2),
        _ => true,
    };
    if !ok {
        return None;
    }
    Some(match kind {
        "stack" | "chain" => combine(g, t, kind),
        _ => apply(g, t, kind),
    })
}

/// every adaptor alone and every ordered pair of adaptors (the lower one is then asked through
/// the trait methods the upper one calls), over a 3-dimensional and a 2-dimensional leaf
fn pairs(g: &mut Gen) {
    let rounds = if g.thorough { 5 } else { 1 };
    for _ in 0..rounds {
        for leaf in [vec![("a", 2usize), ("b", 3usize), ("c", 2usize)], vec![("a", 3), ("b", 2)]] {
            for lower in PAIR_KINDS {
                let base = Term { lines: leaf_of(&leaf).lines, shape: leaf_of(&leaf).shape };
                let one = match apply_kind(g, base, lower) {
                    Some(t) => t,
                    None => continue,
                };
                g.count("pairs.single");
                emit_methods(g, &one);
                for upper in PAIR_KINDS {
                    if let Some(two) = apply_kind(g, one.clone(), upper) {
                        if two.lines.len() > 40 {
                            continue;
                        }
                        g.count("pairs.pair");
                        emit_methods(g, &two);
                    }
                }
            }
        }
    }
}

/// Layout claims under reorderings: every permutation as `TensorAccess`, as `TensorTranspose`,
/// one over the other in both orders (rotations of 3 and 4 dimensions among them), with a rename
/// in between, over tensors with pairwise different lengths; the claim and the walk in the
/// claimed order (recognised by address) are asked at every level, then a few whole-view
/// consumers and a copy.
fn rotations(g: &mut Gen) {
    let leaves: Vec<Vec<(&str, usize)>> = vec![vec![("a", 2), ("b", 3), ("c", 4)], vec![("a", 2), ("b", 3), ("c", 1), ("d", 2)]];
    for leaf in &leaves {
        let d = leaf.len();
        let base = leaf_of(leaf);
        let all = permutations(d);
        // at 4 dimensions: the rotations and a few others (all of them in the thorough tier)
        let chosen: Vec<Vec<usize>> = if d == 3 || g.thorough {
            all.clone()
        } else {
            all.iter().filter(|p| {
                let fixed = (0..d).filter(|&i| p[i] == i).count();
                fixed <= 1 && !(0..d).all(|i| p[p[i]] == i)
            }).cloned().collect()
        };
        let access_of = |sh: &Shape, p: &Vec<usize>| -> (String, Shape) {
            let req: Vec<String> = p.iter().map(|&i| sh[i].0.clone()).collect();
            (format!("access {}", join(&req)), p.iter().map(|&i| sh[i].clone()).collect())
        };
        let transpose_of = |sh: &Shape, p: &Vec<usize>| -> (String, Shape) {
            let req: Vec<String> = p.iter().map(|&i| sh[i].0.clone()).collect();
            (format!("transpose {}", join(&req)), (0..sh.len()).map(|i| (sh[i].0.clone(), sh[p[i]].1)).collect())
        };
        for p in &chosen {
            for q in &chosen {
                for order in 0..4 {
                    let mut t = base.clone();
                    let steps: Vec<(bool, &Vec<usize>)> = match order {
                        0 => vec![(true, p), (false, q)],
                        1 => vec![(false, p), (true, q)],
                        2 => vec![(true, p), (true, q)],
                        _ => vec![(false, p), (false, q)],
                    };
                    // only a sample of the same-kind pairs
                    if order >= 2 && !g.rng.chance(1, 4) {
                        continue;
                    }
                    for (k, (is_access, perm)) in steps.iter().enumerate() {
                        let (line, sh) = if *is_access { access_of(&t.shape, perm) } else { transpose_of(&t.shape, perm) };
                        t = with_line(&t, line, Some(sh));
                        t.lines.push(("layout".into(), None));
                        t.lines.push(("memorder".into(), None));
                        if k == 0 && g.rng.chance(1, 3) {
                            let fresh: Vec<String> = (0..d).map(|i| NAMES[8 + (i + 1) % 6].to_string()).collect();
                            let sh: Shape = (0..d).map(|i| (fresh[i].clone(), t.shape[i].1)).collect();
                            t = with_line(&t, format!("rename {}", join(&fresh)), Some(sh));
                        }
                    }
                    // the last `layout` / `memorder` pair is asked by the probes below
                    t.lines.pop();
                    t.lines.pop();
                    g.count(&format!("rotations.D={}", d));
                    g.op("@ case".into());
                    g.count("case");
                    let mut leaf_id = 0;
                    for (line, _) in &t.lines {
                        let line = if line.contains(" ? ") {
                            leaf_id += 1;
                            line.replacen(" ? ", &format!(" {} ", leaf_id), 1)
                        } else {
                            line.clone()
                        };
                        g.op(line);
                    }
                    let ls = lens(&t.shape);
                    let n: usize = ls.iter().product();
                    g.op("shape".into());
                    g.op("layout".into());
                    g.op("memorder".into());
                    for _ in 0..2 {
                        let via = *g.rng.pick(&WHOLE_VIAS);
                        g.op(format!("first {} via={}", if via == "first_value" { 1 } else { n }, via));
                    }
                    let r = &chosen[g.rng.below(chosen.len())];
                    let req: Vec<String> = r.iter().map(|&i| t.shape[i].0.clone()).collect();
                    let kind = if g.rng.chance(1, 2) { "reorder" } else { "transpose" };
                    let via = if kind == "reorder" { *g.rng.pick(&["", " via=access_map", " via=access_map_with_index", " via=index_by_map"]) } else { "" };
                    g.op(format!("copy_{} {}{}", kind, join(&req), via));
                    for _ in 0..4 {
                        let idx: Vec<usize> = ls.iter().map(|&l| g.rng.below(l)).collect();
                        let via = *g.rng.pick(&["ref", "mut", "unchecked", "unchecked_mut"]);
                        g.op(format!("get {} via={}", show_idx(&idx), via));
                    }
                }
            }
        }
    }
}

/// the size of a matrix after matrix-side adaptors (`range:rs:rl:cs:cl` clips, `reverse` keeps)
fn mat_dims(mut dims: (usize, usize), ops: &str) -> (usize, usize) {
    for op in ops.split(';') {
        let f: Vec<&str> = op.split(':').collect();
        if f[0] == "range" {
            let v: Vec<usize> = f[1..].iter().map(|x| x.parse().unwrap()).collect();
            dims = (clip(v[0], v[1], dims.0), clip(v[2], v[3], dims.1));
        }
    }
    dims
}

/// `TensorRefMatrix` over stacks of matrix adaptors (MatrixRange, MatrixReverse with each of its
/// four settings) over `MatrixRefTensor` over row major / column major / unordered tensor views,
/// and over a `Matrix` itself; the layout claimed and the walk in that order are asked of the
/// matrix-backed view and of a rename / reordering / transposition of it
fn matrix_stacks(g: &mut Gen) {
    let tensor = |shape: &[(&str, usize)], more: &[(&str, Vec<(&str, usize)>)]| -> Term {
        let mut t = leaf_of(shape);
        for (line, sh) in more {
            let sh: Shape = sh.iter().map(|(n, l)| (n.to_string(), *l)).collect();
            t = with_line(&t, line.to_string(), Some(sh));
        }
        t
    };
    let matrix = |rows: usize, cols: usize, via: &str| -> Term {
        Term {
            lines: vec![(format!("matrix ? {} {} row,column{}", rows, cols, via), Some(vec![rows, cols]))],
            shape: vec![("row".into(), rows), ("column".into(), cols)],
        }
    };
    let mut bases: Vec<(Term, &str)> = vec![
        (tensor(&[("r", 4), ("c", 5)], &[]), "with_names"),
        (tensor(&[("r", 4), ("c", 5)], &[("access c,r", vec![("c", 5), ("r", 4)])]), "with_names"),
        (tensor(&[("r", 4), ("c", 5)], &[("transpose c,r", vec![("r", 5), ("c", 4)])]), "from"),
        (tensor(&[("r", 4), ("c", 5)], &[("reverse r", vec![("r", 4), ("c", 5)])]), "with_names"),
        (matrix(4, 5, ""), "with_names+direct"),
        (matrix(4, 5, ""), "with_names"),
        (matrix(3, 3, " via=with_names+box"), "from+direct"),
        (tensor(&[("r", 9), ("c", 11)], &[]), "with_names+box"),
        (tensor(&[("c", 12), ("r", 9)], &[("access r,c", vec![("r", 9), ("c", 12)])]), "with_names"),
        // the names the interop wrappers use themselves, at the other position / only one of them
        (tensor(&[("column", 3), ("row", 4)], &[]), "with_names"),
        (tensor(&[("column", 3), ("row", 4)], &[("access row,column", vec![("row", 4), ("column", 3)])]), "from"),
        (tensor(&[("row", 3), ("x", 4)], &[]), "with_names"),
        (tensor(&[("x", 3), ("column", 4)], &[("access column,x", vec![("column", 4), ("x", 3)])]), "with_names"),
    ];
    if g.thorough {
        bases.push((tensor(&[("r", 1), ("c", 6)], &[]), "with_names"));
        bases.push((tensor(&[("r", 6), ("c", 1)], &[("access c,r", vec![("c", 1), ("r", 6)])]), "with_names"));
        bases.push((matrix(10, 9, ""), "from+direct"));
        bases.push((tensor(&[("a", 2), ("r", 5), ("c", 4)], &[("index a:1", vec![("r", 5), ("c", 4)])]), "with_names"));
    }
    let mut op_sets: Vec<String> = vec![];
    for (fr, fc) in [(0, 0), (0, 1), (1, 0), (1, 1)] {
        op_sets.push(format!("reverse:{}:{}", fr, fc));
        op_sets.push(format!("range:1:2:1:3;reverse:{}:{}", fr, fc));
        op_sets.push(format!("reverse:{}:{};range:1:2:1:3", fr, fc));
        op_sets.push(format!("range:0:99:0:99;reverse:{}:{}", fr, fc));
        op_sets.push(format!("reverse:{}:{};reverse:{}:{}", fr, fc, fr, fc));
        op_sets.push(format!("reverse:{}:{};reverse:{}:{}", fr, fc, 1 - fr, 1 - fc));
    }
    for r in [
        "range:1:2:0:99", "range:0:99:1:2", "range:1:2:1:3", "range:0:99:0:99", "range:1:99:2:99", "range:0:1:0:1", "range:2:1:2:1",
        "range:1:3:1:3;range:1:1:0:2", "range:0:3:0:3;range:1:2:1:2;range:1:1:1:1", "range:8:1:9:2", "range:0:8:0:9",
        // nothing left: `with_names` sees an empty matrix
        "range:0:0:0:1", "range:0:1:0:0", "range:99:1:0:1", "range:1:2:1:3;range:2:1:0:1",
    ] {
        op_sets.push(r.to_string());
    }
    op_sets.push(format!("range:{}:1:0:1", MAX));
    op_sets.push(format!("range:1:{}:1:{}", MAX, MAX));
    op_sets.push(format!("range:{}:{}:0:1;reverse:1:1", MAX, MAX));
    for (base, via) in &bases {
        let (rows, cols) = (base.shape[0].1, base.shape[1].1);
        for ops in &op_sets {
            let dims = mat_dims((rows, cols), ops);
            let ok = dims.0 > 0 && dims.1 > 0;
            let posts: &[&str] = if !ok {
                &[""]
            } else if g.thorough || rows * cols <= 20 {
                &["", "access y,x", "transpose y,x", "rename p,q", "matrixof u,v ops=range:0:1:0:99", "reverse x", "range y:0:1"]
            } else {
                &["", "access y,x"]
            };
            for post in posts {
                let ms: Shape = vec![("x".into(), dims.0), ("y".into(), dims.1)];
                let mut t = with_line(base, format!("matrixof x,y ops={} via={}", ops, via), if ok { Some(ms.clone()) } else { None });
                g.count(&format!("matrix_stack.{}", if ok { "built" } else { "refused" }));
                if !post.is_empty() {
                    t.lines.push(("layout".into(), None));
                    t.lines.push(("memorder".into(), None));
                    let fin: Shape = match *post {
                        "access y,x" => vec![ms[1].clone(), ms[0].clone()],
                        "transpose y,x" => vec![("x".into(), ms[1].1), ("y".into(), ms[0].1)],
                        "rename p,q" => vec![("p".into(), ms[0].1), ("q".into(), ms[1].1)],
                        "range y:0:1" => vec![ms[0].clone(), ("y".into(), 1)],
                        "reverse x" => ms.clone(),
                        _ => vec![("u".into(), 1), ("v".into(), ms[1].1)],
                    };
                    t = with_line(&t, post.to_string(), Some(fin));
                }
                emit(g, &t, rows * cols <= 20, false);
            }
        }
    }
}

/// corners, a sample of the inside and the ring of a large view
fn probes_large(g: &mut Gen, ls: &[usize]) {
    let d = ls.len();
    g.op("shape".into());
    g.op("layout".into());
    g.op("memorder".into());
    g.op("sources via=ref".into());
    for n in ["a", "b", "f", "zz"] {
        g.op(format!("length_of {}", n));
    }
    let product: usize = ls.iter().product();
    if product <= 4096 {
        let via = *g.rng.pick(&FIRST_VIAS);
        let k = g.rng.below(product.min(80) + 1);
        g.op(format!("first {} via={}", k, via));
    }
    let mut idxs: Vec<Vec<usize>> = vec![];
    // every corner
    for bits in 0..(1usize << d) {
        idxs.push((0..d).map(|k| if bits >> k & 1 == 1 { ls[k] - 1 } else { 0 }).collect());
    }
    // every position along each dimension, the others random
    for dim in 0..d {
        for i in 0..ls[dim] {
            let mut idx: Vec<usize> = ls.iter().map(|&l| g.rng.below(l)).collect();
            idx[dim] = i;
            idxs.push(idx);
        }
    }
    for _ in 0..64 {
        idxs.push(ls.iter().map(|&l| g.rng.below(l)).collect());
    }
    for idx in &idxs {
        let via = match g.rng.below(8) {
            0 => "unchecked",
            1 => "unchecked_mut",
            _ => *g.rng.pick(&GET_VIAS),
        };
        g.op(format!("get {} via={}", show_idx(idx), via));
        g.count("large.get");
        if g.rng.chance(1, 5) {
            let via = *g.rng.pick(&SET_VIAS);
            g.op(format!("set {} via={}", show_idx(idx), via));
            g.count("large.set");
        }
    }
    for dim in 0..d {
        for bad in [ls[dim], ls[dim] + 1, MAX] {
            let mut idx: Vec<usize> = ls.iter().map(|&l| g.rng.below(l)).collect();
            idx[dim] = bad;
            let via = *g.rng.pick(&GET_VIAS);
            g.op(format!("get {} via={}", show_idx(&idx), via));
            g.op(format!("set {} via=mut", show_idx(&idx)));
        }
    }
}

fn emit_large(g: &mut Gen, t: &Term) {
    g.op("@ case".into());
    g.count("case");
    g.count("case.large");
    let mut leaf_id = 0;
    let n = t.lines.len();
    for (k, (line, ls)) in t.lines.iter().enumerate() {
        let line = if line.contains(" ? ") {
            leaf_id += 1;
            line.replacen(" ? ", &format!(" {} ", leaf_id), 1)
        } else {
            line.clone()
        };
        g.op(line);
        match ls {
            Some(ls) if k + 1 == n => probes_large(g, ls),
            Some(ls) if !ls.is_empty() => {
                let last: Vec<usize> = ls.iter().map(|&l| l - 1).collect();
                g.op(format!("get {} via=ref", show_idx(&last)));
            }
            _ => g.op("shape".into()),
        }
    }
}

/// large cases: dimensionality 5 and 6 with long sides, ranges / masks starting at and spanning
/// eight and more, chains of long sources, stacks of four sources of 33 and more elements
fn large(g: &mut Gen) {
    let sh = |dims: &[(&str, usize)]| -> Shape { dims.iter().map(|(n, l)| (n.to_string(), *l)).collect() };
    let line = |t: &Term, l: &str, dims: &[(&str, usize)]| -> Term { with_line(t, l.to_string(), Some(sh(dims))) };
    // --- five and six dimensions, sides up to 9..12
    let five = leaf_of(&[("a", 9), ("b", 2), ("c", 3), ("d", 2), ("e", 10)]);
    let six = leaf_of(&[("a", 12), ("b", 2), ("c", 2), ("d", 3), ("e", 2), ("f", 9)]);
    let six_b = leaf_of(&[("a", 2), ("b", 11), ("c", 1), ("d", 2), ("e", 9), ("f", 2)]);
    emit_large(g, &five);
    emit_large(g, &six);
    emit_large(g, &line(&five, "range a:8:1,e:1:9", &[("a", 1), ("b", 2), ("c", 3), ("d", 2), ("e", 9)]));
    emit_large(g, &line(&five, "mask a:0:8,e:8:1", &[("a", 1), ("b", 2), ("c", 3), ("d", 2), ("e", 9)]));
    emit_large(g, &line(&five, "reverse a,e", &[("a", 9), ("b", 2), ("c", 3), ("d", 2), ("e", 10)]));
    emit_large(g, &line(&five, "access e,d,c,b,a", &[("e", 10), ("d", 2), ("c", 3), ("b", 2), ("a", 9)]));
    emit_large(g, &line(&five, "transpose e,b,c,d,a", &[("a", 10), ("b", 2), ("c", 3), ("d", 2), ("e", 9)]));
    emit_large(g, &line(&five, "index a:8", &[("b", 2), ("c", 3), ("d", 2), ("e", 10)]));
    emit_large(g, &line(&five, "index e:9,c:2", &[("a", 9), ("b", 2), ("d", 2)]));
    emit_large(g, &line(&five, "expand 5:x", &[("a", 9), ("b", 2), ("c", 3), ("d", 2), ("e", 10), ("x", 1)]));
    emit_large(g, &line(&five, "rename v,w,x,y,z", &[("v", 9), ("w", 2), ("x", 3), ("y", 2), ("z", 10)]));
    emit_large(g, &line(&six, "range a:9:3,f:0:8", &[("a", 3), ("b", 2), ("c", 2), ("d", 3), ("e", 2), ("f", 8)]));
    emit_large(g, &line(&six, "mask a:1:10,f:8:9", &[("a", 2), ("b", 2), ("c", 2), ("d", 3), ("e", 2), ("f", 8)]));
    emit_large(g, &line(&six, "reverse f,a,d", &[("a", 12), ("b", 2), ("c", 2), ("d", 3), ("e", 2), ("f", 9)]));
    emit_large(g, &line(&six, "access f,e,d,c,b,a", &[("f", 9), ("e", 2), ("d", 3), ("c", 2), ("b", 2), ("a", 12)]));
    emit_large(g, &line(&six, "transpose b,c,d,e,f,a", &[("a", 2), ("b", 2), ("c", 3), ("d", 2), ("e", 9), ("f", 12)]));
    emit_large(g, &line(&six, "index a:11,f:8", &[("b", 2), ("c", 2), ("d", 3), ("e", 2)]));
    emit_large(g, &line(&six_b, "range b:2:9,e:8:1", &[("a", 2), ("b", 9), ("c", 1), ("d", 2), ("e", 1), ("f", 2)]));
    {
        // a composition over the six dimensional leaf
        let t = line(&six_b, "reverse b,e", &[("a", 2), ("b", 11), ("c", 1), ("d", 2), ("e", 9), ("f", 2)]);
        let t = line(&t, "mask b:0:8", &[("a", 2), ("b", 3), ("c", 1), ("d", 2), ("e", 9), ("f", 2)]);
        let t = line(&t, "access e,b,a,c,d,f", &[("e", 9), ("b", 3), ("a", 2), ("c", 1), ("d", 2), ("f", 2)]);
        emit_large(g, &t);
        let t = line(&t, "index a:1,c:0", &[("e", 9), ("b", 3), ("d", 2), ("f", 2)]);
        let t = line(&t, "range e:8:9", &[("e", 1), ("b", 3), ("d", 2), ("f", 2)]);
        emit_large(g, &t);
    }
    // --- ranges and masks with starts and lengths of eight and more
    let long = leaf_of(&[("a", 40)]);
    for (l, n) in [("range a:8:8", 8), ("range a:9:17", 17), ("range a:31:9", 9), ("range a:16:99", 24), ("range a:39:8", 1), ("range a:8:32 kind=strict", 32)] {
        emit_large(g, &line(&long, l, &[("a", n)]));
    }
    for (l, n) in [("mask a:8:8", 32), ("mask a:9:17", 23), ("mask a:0:31", 9), ("mask a:16:99", 16), ("mask a:1:38", 2), ("mask a:8:32 kind=strict", 8)] {
        emit_large(g, &line(&long, l, &[("a", n)]));
    }
    {
        let t = line(&long, "range a:8:30", &[("a", 30)]);
        let t = line(&t, "mask a:9:12", &[("a", 18)]);
        let t = line(&t, "reverse a", &[("a", 18)]);
        let t = line(&t, "range a:8:9", &[("a", 9)]);
        emit_large(g, &t);
    }
    let wide = leaf_of(&[("a", 20), ("b", 24)]);
    emit_large(g, &line(&wide, "range a:8:10,b:9:12", &[("a", 10), ("b", 12)]));
    emit_large(g, &line(&wide, "mask a:8:10,b:9:12", &[("a", 10), ("b", 12)]));
    emit_large(g, &line(&wide, "range b:16:8,a:11:9", &[("a", 9), ("b", 8)]));
    emit_large(g, &line(&line(&wide, "access b,a", &[("b", 24), ("a", 20)]), "mask b:8:8", &[("b", 16), ("a", 20)]));
    emit_large(g, &line(&wide, "matrixof x,y ops=range:8:9:10:12;reverse:0:1 via=with_names", &[("x", 9), ("y", 12)]));
    emit_large(g, &line(&wide, "matrixof x,y ops=range:9:11:8:16 via=with_names", &[("x", 11), ("y", 16)]));
    // --- chains whose sources are eight and more long
    for (along, other) in [("a", "b"), ("b", "a")] {
        let mut lines = vec![];
        let mut total = 0;
        for l in [8usize, 11, 9] {
            let s: Shape = if along == "a" { sh(&[("a", l), ("b", 3)]) } else { sh(&[("a", 3), ("b", l)]) };
            lines.push((format!("leaf ? {}", show(&s)), Some(lens(&s))));
            total += l;
        }
        let shape: Shape = if along == "a" { sh(&[("a", total), (other, 3)]) } else { sh(&[(other, 3), ("b", total)]) };
        for via in ["array", "tuple"] {
            let mut t = Term { lines: lines.clone(), shape: shape.clone() };
            t.lines.push((format!("chain 3 {} via={}", along, via), Some(lens(&shape))));
            emit_large(g, &t);
        }
    }
    {
        // four long one dimensional sources, the second and the last shortened first
        let mut lines = vec![];
        for (l, cut) in [(12usize, None), (17, Some((8usize, 9usize))), (8, None), (20, Some((9, 11)))] {
            lines.push((format!("leaf ? a:{}", l), Some(vec![l])));
            if let Some((start, keep)) = cut {
                lines.push((format!("range a:{}:{}", start, keep), Some(vec![keep])));
            }
        }
        let mut t = Term { lines, shape: sh(&[("a", 12 + 9 + 8 + 11)]) };
        t.lines.push(("chain 4 a via=tuple".into(), Some(vec![40])));
        emit_large(g, &t);
        emit_large(g, &line(&t, "range a:20:12", &[("a", 12)]));
    }
    // --- stacks of four sources of 33 and more elements each
    for (dims, pos) in [(vec![("a", 5usize), ("b", 7usize)], 0usize), (vec![("a", 5), ("b", 7)], 1), (vec![("a", 5), ("b", 7)], 2), (vec![("a", 33)], 1), (vec![("a", 3), ("b", 4), ("c", 3)], 2)] {
        let base = leaf_of(&dims);
        let mut lines = vec![];
        for _ in 0..4 {
            lines.extend(base.lines.iter().cloned());
        }
        let mut shape = base.shape.clone();
        shape.insert(pos, ("s".into(), 4));
        for via in ["array", "tuple"] {
            let mut t = Term { lines: lines.clone(), shape: shape.clone() };
            t.lines.push((format!("stack 4 {}:s via={}", pos, via), Some(lens(&shape))));
            emit_large(g, &t);
        }
    }
}

/// adaptors whose arguments change nothing (or are undone by a second application), for a view
/// of the given shape: the line and the shape afterwards
fn noop_lines(shape: &Shape) -> Vec<(String, Shape)> {
    let d = shape.len();
    let own = join(&names(shape));
    let mut out: Vec<(String, Shape)> = vec![];
    for kind in ["range", "mask"] {
        out.push((format!("{} -", kind), shape.clone()));
    }
    if d >= 1 {
        let all: Vec<String> = shape.iter().map(|(n, l)| format!("{}:0:{}", n, l)).collect();
        out.push((format!("range {}", join(&all)), shape.clone()));
        out.push((format!("range {}:0:{} kind=strict via=from_all", shape[0].0, shape[0].1), shape.clone()));
        out.push((format!("range {}:0:{}", shape[d - 1].0, MAX), shape.clone()));
        let none: Vec<String> = shape.iter().map(|(n, l)| format!("{}:{}:0", n, l / 2)).collect();
        out.push((format!("mask {}", join(&none)), shape.clone()));
        out.push((format!("mask {}:0:0 kind=strict", shape[0].0), shape.clone()));
        out.push((format!("mask {}:{}:3", shape[d - 1].0, shape[d - 1].1), shape.clone()));
        out.push((format!("chain 1 {}", shape[0].0), shape.clone()));
        out.push((format!("reverse {}", shape[d - 1].0), shape.clone()));
    }
    out.push(("reverse -".into(), shape.clone()));
    out.push((format!("rename {}", own), shape.clone()));
    out.push((format!("access {}", own), shape.clone()));
    out.push((format!("access {} via=tv_mut", own), shape.clone()));
    out.push((format!("transpose {}", own), shape.clone()));
    if d >= 2 {
        let mut sw = names(shape);
        sw.swap(0, d - 1);
        let mut a = shape.clone();
        a.swap(0, d - 1);
        out.push((format!("access {}", join(&sw)), a));
        let mut t = shape.clone();
        let (l0, l1) = (t[0].1, t[d - 1].1);
        t[0].1 = l1;
        t[d - 1].1 = l0;
        out.push((format!("transpose {}", join(&sw)), t));
    }
    if d < 6 {
        let used = names(shape);
        let extra = ["x", "y", "z", "u", "v", "w", "p"].iter().find(|n| !used.iter().any(|u| u == *n)).unwrap().to_string();
        for pos in 0..=d {
            let mut e = shape.clone();
            e.insert(pos, (extra.clone(), 1));
            out.push((format!("expand {}:{}", pos, extra), e.clone()));
            if pos == 0 || pos == d {
                out.push((format!("stack 1 {}:{}", pos, extra), e));
            }
        }
    }
    for (k, dim) in shape.iter().enumerate() {
        if dim.1 == 1 {
            let rest: Shape = (0..d).filter(|i| *i != k).map(|i| shape[i].clone()).collect();
            out.push((format!("index {}:0", dim.0), rest));
        }
    }
    if d == 2 {
        out.push((format!("matrixof {} via=with_names", own), shape.clone()));
        out.push((format!("matrixof {} ops=reverse:0:0 via=with_names", own), shape.clone()));
        out.push((format!("matrixof {} ops=range:0:{}:0:{} via=with_names", own, MAX, MAX), shape.clone()));
        out.push((format!("matrixof {} ops=reverse:1:1;reverse:1:1 via=with_names", own), shape.clone()));
    }
    out
}

/// every such adaptor once, twice, and followed by two others
fn noops(g: &mut Gen) {
    let mut leaves: Vec<Vec<(&str, usize)>> = vec![vec![("a", 2), ("b", 3)], vec![("a", 2), ("b", 1), ("c", 2)]];
    if g.thorough {
        leaves.push(vec![("a", 3)]);
        leaves.push(vec![]);
        leaves.push(vec![("a", 1), ("b", 1)]);
    }
    for leaf in &leaves {
        let base = leaf_of(leaf);
        for (l1, s1) in noop_lines(&base.shape) {
            let t1 = with_line(&base, l1.clone(), Some(s1.clone()));
            g.count("noop.once");
            emit(g, &t1, true, false);
            let second = noop_lines(&s1);
            let mut picks: Vec<(String, Shape)> = vec![];
            // the same adaptor again (an expansion needs another name: take the same position)
            let head = l1.split(' ').next().unwrap().to_string();
            if let Some(again) = second.iter().find(|(l, _)| *l == l1).or_else(|| second.iter().find(|(l, _)| l.starts_with(&head))) {
                picks.push(again.clone());
            }
            for _ in 0..2 {
                picks.push(second[g.rng.below(second.len())].clone());
            }
            for (l2, s2) in picks {
                let t2 = with_line(&t1, l2, Some(s2));
                g.count("noop.twice");
                emit(g, &t2, false, true);
            }
        }
    }
}

/// Rewrites the generated cases: in half of them every dimension name is replaced (injectively)
/// by one of the adversarial names; in a quarter the leaves hold degenerate data (the harness then
/// recognises cells by address; leaves copied into a view are not used there); in an eighth the
/// leaf ids start at 0, so that the very first element of the case is the value 0.
fn adversarial_pass(g: &mut Gen) {
    let lines = std::mem::take(&mut g.lines);
    let mut out: Vec<String> = Vec::with_capacity(lines.len());
    let mut i = 0;
    while i < lines.len() {
        let mut j = i + 1;
        while j < lines.len() && !lines[j].starts_with('@') {
            j += 1;
        }
        if lines[i] != "@ case" {
            out.extend_from_slice(&lines[i..j]);
            i = j;
            continue;
        }
        let mut case: Vec<String> = lines[i..j].to_vec();
        // --- names
        if g.rng.chance(1, 2) {
            let mut used: Vec<String> = vec![];
            for l in &case[1..] {
                for part in name_parts(l) {
                    if !used.contains(&part) {
                        used.push(part);
                    }
                }
            }
            if used.len() <= ADVERSARIAL_NAMES.len() {
                let targets = adversarial_names(&mut g.rng, used.len());
                for l in case.iter_mut().skip(1) {
                    *l = rename_parts(l, &used, &targets);
                }
                g.count("case.adversarial_names");
            }
        }
        // --- data
        if g.rng.chance(1, 4) {
            let mode = *g.rng.pick(&["zeros", "equal", "pairs"]);
            case[0] = format!("@ case data={}", mode);
            for l in case.iter_mut().skip(1) {
                if l.contains("via=t_view_owned") {
                    *l = l.replace("via=t_view_owned", "via=leaf");
                } else if l.contains("via=t_owned") {
                    *l = l.replace("via=t_owned", "via=tv_owned");
                }
            }
            g.count(&format!("case.data.{}", mode));
        } else if g.rng.chance(1, 6) {
            for l in case.iter_mut().skip(1) {
                let toks: Vec<&str> = l.split(' ').collect();
                if (toks[0] == "leaf" || toks[0] == "matrix") && toks.len() > 2 {
                    if let Ok(id) = toks[1].parse::<u64>() {
                        let mut t: Vec<String> = toks.iter().map(|x| x.to_string()).collect();
                        t[1] = (id.saturating_sub(1)).to_string();
                        *l = t.join(" ");
                    }
                }
            }
            g.count("case.leaf_ids_from_zero");
        }
        out.extend(case);
        i = j;
    }
    g.lines = out;
}

/// the dimension names in an operation line: the `,` / `:` separated parts, that are not numbers,
/// of the tokens after the operation's name that are not `key=value` options
fn name_parts(line: &str) -> Vec<String> {
    let mut out = vec![];
    for tok in line.split(' ').skip(1) {
        if tok.contains('=') {
            continue;
        }
        for part in tok.split(|c| c == ',' || c == ':') {
            if !part.is_empty() && part != "-" && part.parse::<u128>().is_err() {
                out.push(part.to_string());
            }
        }
    }
    out
}

fn rename_parts(line: &str, from: &[String], to: &[&'static str]) -> String {
    let mut toks: Vec<String> = vec![];
    for (k, tok) in line.split(' ').enumerate() {
        if k == 0 || tok.contains('=') {
            toks.push(tok.to_string());
            continue;
        }
        let mut t = String::new();
        let mut part = String::new();
        let flush = |part: &mut String, t: &mut String| {
            match from.iter().position(|f| f == part) {
                Some(p) => t.push_str(to[p]),
                None => t.push_str(part),
            }
            part.clear();
        };
        for c in tok.chars() {
            if c == ',' || c == ':' {
                flush(&mut part, &mut t);
                t.push(c);
            } else {
                part.push(c);
            }
        }
        flush(&mut part, &mut t);
        toks.push(t);
    }
    toks.join(" ")
}

/// constructor arguments the library must reject (a separate stream)
fn malformed(g: &mut Gen) {
    let base = leaf_of(&[("a", 2), ("b", 3), ("c", 2)]);
    let bad: Vec<&str> = vec![
        "range a:0:1,a:1:1", "range zz:0:1", "range a:0:1,zz:0:1", "range a:0:0", "range a:2:1", "range a:0:1,b:3:2",
        "range a:0:3 kind=strict", "range a:1:2 kind=strict", "range a:0:2,b:0:4 kind=strict",
        "mask a:0:1,a:1:1", "mask zz:0:1", "mask a:0:2", "mask a:0:9", "mask b:0:3", "mask a:1:2 kind=strict", "mask b:1:3 kind=strict",
        "range a:0:1,b:0:1,c:0:1,a:1:1", "mask a:0:1,b:0:1,c:0:1,zz:0:1",
        "index a:2", "index zz:0", "index a:0,a:1", "index a:0,b:3", "index a:0,b:0,c:0,a:1", "index a:0,b:0,c:0,zz:0",
        "expand 4:x", "expand 0:a", "expand 0:x,1:x", "expand 0:x,3:b", "expand 9:x,0:y",
        "rename a,a,b", "rename x,y,x", "rename a,b", "rename a,b,c,d",
        "reverse a,a", "reverse zz", "reverse a,zz", "reverse a,b,c,a",
        "access a,b,b", "access a,b,zz", "access zz,a,b", "access c,c,c", "access a,b", "access b,a,a",
        "transpose a,b,b", "transpose a,zz,c", "transpose a,a,a", "transpose c,a,c",
        "matrixof x,y", "set_names a,b,c", "swap_source", "get_names", "stack 1 4:s", "stack 1 0:a", "stack 1 3:c", "stack 0 0:s", "stack 2 0:s", "stack 5 0:s",
        "chain 1 zz", "chain 0 a", "chain 2 a",
    ];
    for b in bad {
        let t = with_line(&base, b.to_string(), None);
        g.count("malformed.constructor");
        emit(g, &t, false, false);
    }
    // sources that do not fit together
    let pairs: Vec<(Vec<(&str, usize)>, Vec<(&str, usize)>, &str)> = vec![
        (vec![("a", 2), ("b", 3)], vec![("a", 2), ("b", 2)], "stack 2 0:s"),
        (vec![("a", 2), ("b", 3)], vec![("a", 2), ("c", 3)], "stack 2 1:s"),
        (vec![("a", 2), ("b", 3)], vec![("b", 3), ("a", 2)], "stack 2 2:s"),
        (vec![("a", 2), ("b", 3)], vec![("a", 2)], "stack 2 0:s"),
        (vec![("a", 2), ("b", 3)], vec![("a", 2), ("b", 3)], "stack 2 0:b"),
        (vec![("a", 2), ("b", 3)], vec![("a", 3), ("b", 2)], "chain 2 a"),
        (vec![("a", 2), ("b", 3)], vec![("a", 1), ("c", 3)], "chain 2 a"),
        (vec![("a", 2), ("b", 3)], vec![("c", 1), ("b", 3)], "chain 2 a"),
        (vec![("a", 2), ("b", 3)], vec![("b", 3), ("a", 2)], "chain 2 a"),
        (vec![("a", 2), ("b", 3)], vec![("a", 2)], "chain 2 a"),
        (vec![("a", 2), ("b", 3)], vec![("a", 5), ("b", 3)], "chain 2 c"),
        (vec![], vec![], "chain 2 a"),
        (vec![], vec![], "chain 1 a"),
        // the same names in another order (a validation that looked lengths up by NAME would
        // accept these): equal lengths, lengths that agree name by name, the chained one free
        (vec![("a", 2), ("b", 2)], vec![("b", 2), ("a", 2)], "stack 2 0:s"),
        (vec![("a", 2), ("b", 2)], vec![("b", 2), ("a", 2)], "chain 2 a"),
        (vec![("a", 2), ("b", 2)], vec![("b", 2), ("a", 2)], "chain 2 b"),
        (vec![("a", 2), ("b", 3)], vec![("b", 3), ("a", 5)], "chain 2 a"),
        (vec![("a", 2), ("b", 3)], vec![("b", 4), ("a", 2)], "chain 2 b"),
        (vec![("a", 2), ("b", 3), ("c", 2)], vec![("c", 2), ("a", 2), ("b", 3)], "stack 2 0:s"),
        (vec![("a", 2), ("b", 3), ("c", 2)], vec![("b", 3), ("c", 2), ("a", 2)], "stack 2 3:s"),
        (vec![("a", 2), ("b", 3), ("c", 2)], vec![("a", 2), ("c", 2), ("b", 3)], "chain 2 a"),
        (vec![("a", 2), ("b", 3), ("c", 2)], vec![("c", 2), ("b", 3), ("a", 7)], "chain 2 a"),
        (vec![("a", 2), ("b", 3), ("c", 2)], vec![("b", 3), ("a", 2), ("c", 4)], "chain 2 c"),
        (vec![("row", 2), ("column", 3)], vec![("column", 3), ("row", 2)], "stack 2 0:s"),
        (vec![("row", 2), ("column", 3)], vec![("column", 3), ("row", 4)], "chain 2 row"),
        (vec![("r", 2), ("row", 2)], vec![("row", 2), ("r", 2)], "chain 2 r"),
        (vec![("_empty_", 2), ("a", 2)], vec![("a", 2), ("_empty_", 2)], "stack 2 1:s"),
    ];
    for (s1, s2, op) in pairs {
        let mut t = leaf_of(&s1);
        t.lines.extend(leaf_of(&s2).lines);
        for via in ["array", "tuple"] {
            let t = with_line(&t, format!("{} via={}", op, via), None);
            g.count("malformed.sources");
            emit(g, &t, false, false);
        }
    }
    // constructors asked through the convenience methods of TensorView / Tensor with arguments
    // that must be refused: a name that is already there, a name repeated, a name unknown
    for (line, vias) in [
        ("expand 0:a", vec!["tv_owned", "tv_mut", "t_mut", "t_owned"]),
        ("expand 3:c", vec!["tv_owned", "tv_mut", "t_mut", "t_owned"]),
        ("expand 0:x,1:x", vec!["tv_owned", "tv_mut", "t_mut", "t_owned"]),
        ("expand 1:x,1:b", vec!["tv_owned", "t_mut"]),
        ("index a:0,a:1", vec!["tv_owned", "tv_mut", "t_mut", "t_owned"]),
        ("index zz:0", vec!["tv_owned", "tv_mut", "t_mut", "t_owned"]),
        ("index b:3", vec!["tv_owned", "tv_mut", "t_mut", "t_owned"]),
        ("reverse a,a", vec!["tv_owned", "tv_mut", "t_mut", "t_owned"]),
        ("reverse zz", vec!["tv_owned", "tv_mut", "t_mut", "t_owned"]),
        ("access a,b,b", vec!["tv_owned", "tv_mut", "t_mut", "t_owned"]),
        ("access a,b,zz", vec!["tv_owned", "tv_mut", "t_mut", "t_owned"]),
        ("range a:0:1,a:1:1", vec!["tv_owned", "tv_mut", "t_mut", "t_owned"]),
        ("range zz:0:1", vec!["tv_owned", "tv_mut", "t_mut", "t_owned"]),
        ("mask a:0:1,a:1:1", vec!["tv_owned", "tv_mut", "t_mut", "t_owned"]),
        ("mask b:0:3", vec!["tv_owned", "tv_mut", "t_mut", "t_owned"]),
    ] {
        for via in vias {
            let t = with_line(&base, format!("{} via={}", line, via), None);
            g.count("malformed.helper");
            emit(g, &t, false, false);
        }
    }
    // names that only look like a clash: one a part of the other, the empty name next to any
    for (leaf, line, shape) in [
        (vec![("row", 2), ("rows", 3)], "expand 0:r,2:ro", vec![("r", 1), ("row", 2), ("rows", 3), ("ro", 1)]),
        (vec![("ab", 2), ("b", 3)], "expand 1:a", vec![("ab", 2), ("a", 1), ("b", 3)]),
        (vec![("ab", 2), ("b", 3)], "expand 1:_empty_", vec![("ab", 2), ("_empty_", 1), ("b", 3)]),
        (vec![("_empty_", 2), ("b", 3)], "expand 0:bb", vec![("bb", 1), ("_empty_", 2), ("b", 3)]),
        (vec![("xy", 2), ("x", 3)], "rename x,xy", vec![("x", 2), ("xy", 3)]),
        (vec![("xy", 2), ("x", 3)], "rename y,_empty_", vec![("y", 2), ("_empty_", 3)]),
        (vec![("column", 2), ("columns", 3)], "stack 1 1:col", vec![("column", 2), ("col", 1), ("columns", 3)]),
        (vec![("column", 2), ("row", 3)], "matrixof row,rows", vec![("row", 2), ("rows", 3)]),
        (vec![("column", 2), ("row", 3)], "matrixof column,row", vec![("column", 2), ("row", 3)]),
        (vec![("column", 2), ("row", 3)], "matrixof row,column via=from", vec![("row", 2), ("column", 3)]),
        (vec![("aa", 2), ("a", 3)], "index a:2", vec![("aa", 2)]),
        (vec![("aa", 2), ("a", 3)], "reverse a", vec![("aa", 2), ("a", 3)]),
        (vec![("aa", 2), ("a", 3)], "range a:1:2", vec![("aa", 2), ("a", 2)]),
        (vec![("aa", 2), ("a", 3)], "mask a:0:2", vec![("aa", 2), ("a", 1)]),
        (vec![("aa", 2), ("a", 3)], "access a,aa", vec![("a", 3), ("aa", 2)]),
        (vec![("aa", 2), ("a", 3)], "transpose a,aa", vec![("aa", 3), ("a", 2)]),
    ] {
        for via in ["", "tv_owned", "t_mut"] {
            if !via.is_empty() && (line.starts_with("rename") || line.starts_with("stack") || line.starts_with("matrixof") || line.starts_with("transpose")) {
                continue;
            }
            let sh: Shape = shape.iter().map(|(n, l)| (n.to_string(), *l)).collect();
            let l = if via.is_empty() { line.to_string() } else { format!("{} via={}", line, via) };
            let t = with_line(&leaf_of(&leaf), l, Some(sh));
            g.count("names.lookalike");
            emit(g, &t, true, false);
        }
    }
    // three and four sources where only a later one does not fit
    for n in [3usize, 4] {
        for bad in 1..n {
            for (op, bad_shape) in [("stack", "a:2,b:2"), ("stack", "a:2,c:3"), ("stack", "b:3,a:2"), ("chain", "a:3,b:2"), ("chain", "a:1,c:3"), ("chain", "b:3,a:2"), ("chain", "b:3,a:9")] {
                for via in ["array", "tuple"] {
                    g.op("@ case".into());
                    for k in 0..n {
                        g.op(format!("leaf {} {}", k + 1, if k == bad { bad_shape } else { "a:2,b:3" }));
                    }
                    g.op(format!("{} {} {} via={}", op, n, if op == "stack" { "1:s" } else { "a" }, via));
                    g.op("shape".into());
                    g.count("malformed.sources_later");
                }
            }
        }
    }
    // leaves the library must reject, dimensionalities that cannot be typed
    for l in [
        "leaf 1 a:0", "leaf 1 a:2,a:3", "leaf 1 a:2,b:0", "leaf 1 a:1,b:1,c:1,d:1,e:1,f:1,x:1", "matrix 1 2 2 a,a", "matrix 1 1 1 row,row",
    ] {
        g.op("@ case".into());
        g.op(l.to_string());
        g.op("shape".into());
        g.op("get 0 via=ref".into());
        g.count("malformed.leaf");
    }
    // questions of the wrong arity, operations on an empty stack
    g.op("@ case".into());
    for l in ["shape", "get 0", "set 0", "layout", "memorder", "range a:0:1", "index a:0", "expand 0:x", "reverse a", "rename a", "access a", "transpose a", "stack 1 0:s", "chain 1 a"] {
        g.op(l.to_string());
    }
    g.op("leaf 1 a:2,b:2".into());
    for l in ["get 0", "get 0,0,0", "set 1", "index a:0,b:0,a:1", "expand 0:p,0:q,0:r,0:s,0:t"] {
        g.op(l.to_string());
    }
    g.count("malformed.arity");
}

pub fn gen(g: &mut Gen, static_keys: &[&str], static_ops: &dyn Fn(&str) -> Vec<String>) {
    // 1. the statically typed catalogue
    for key in static_keys {
        g.op(format!("@ static {}", key));
        for l in static_ops(key) {
            g.op(l);
        }
        g.count("case.static");
    }
    // 2. malformed constructor arguments
    malformed(g);
    // 3. every parameter at depth 1
    exhaustive(g);
    // 3b. matrix-side adaptor stacks under TensorRefMatrix
    matrix_stacks(g);
    // 3c. large cases
    large(g);
    // 3d. adaptors that change nothing, once and twice
    noops(g);
    // 3e. every trait method and every whole-view consumer on every adaptor and pair of adaptors
    pairs(g);
    // 3f. layout claims under reorderings of reorderings
    rotations(g);
    // 4. random compositions
    let (max_depth, per_depth) = if g.thorough { (5, 9000) } else { (3, 1200) };
    for depth in 0..=max_depth {
        let n = if depth == 0 { per_depth / 4 } else { per_depth };
        for _ in 0..n {
            let t = gen_term(g, depth);
            g.count(&format!("composition.depth={}", depth));
            g.count(&format!("composition.D={}", t.shape.len()));
            emit(g, &t, false, true);
        }
    }
    // 5. adversarial names, degenerate data
    adversarial_pass(g);
}
