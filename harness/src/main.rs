//! emlv — correspondence harness: drives the real easy-ml code (path dependency on the
//! checkout under test) through the same line protocol the Lean model answers.
//!
//!   emlv gen <property> <quick|thorough> <seed>      operation lines on stdout
//!   emlv run <property>                              operation lines on stdin, answers on stdout

#![allow(dead_code, unused_imports, unused_macros)]
mod util;
mod exact;
mod c01;
mod c02;
mod c03;
mod c04;
mod c05;
mod c06;
mod c07;
mod c08;
mod c09;
mod c10;
mod c11;
mod c12;
mod c13;
mod c14;
mod c15;
mod c16;
mod c17;
mod c18;
mod c19;
mod c20;

use std::io::{BufRead, Write};

fn main() {
    let args: Vec<String> = std::env::args().collect();
    if args.len() < 3 {
        eprintln!("usage: emlv gen <property> <tier> <seed> | emlv run <property>");
        std::process::exit(2);
    }
    let prop = args[2].as_str();
    match args[1].as_str() {
        "gen" => {
            let thorough = args.get(3).map(|s| s == "thorough").unwrap_or(false);
            let seed: u64 = args.get(4).and_then(|s| s.parse().ok()).unwrap_or(0);
            let mut g = util::Gen::new(seed, thorough);
            match prop {
                "C01" => c01::gen(&mut g),
                "C02" => c02::gen(&mut g),
                "C03" => c03::gen(&mut g),
                "C04" => c04::gen(&mut g),
                "C05" => c05::gen(&mut g),
                "C06" => c06::gen(&mut g),
                "C07" => c07::gen(&mut g),
                "C08" => c08::gen(&mut g),
                "C09" => c09::gen(&mut g),
                "C10" => c10::gen(&mut g),
                "C11" => c11::gen(&mut g),
                "C12" => c12::gen(&mut g),
                "C13" => c13::gen(&mut g),
                "C14" => c14::gen(&mut g),
                "C15" => c15::gen(&mut g),
                "C16" => c16::gen(&mut g),
                "C17" => c17::gen(&mut g),
                "C18" => c18::gen(&mut g),
                "C19" => c19::gen(&mut g),
                "C20" => c20::gen(&mut g),
                _ => {
                    eprintln!("unknown property {}", prop);
                    std::process::exit(2);
                }
            }
            g.finish();
        }
        "run" => {
            util::silence_panics();
            // EMLV_FLUSH=1: flush after every answer, so that after a process abort the
            // orchestrator can tell which operation killed the process
            let flush = std::env::var("EMLV_FLUSH").is_ok();
            let stdin = std::io::stdin();
            let stdout = std::io::stdout();
            let mut out = std::io::BufWriter::new(stdout.lock());
            macro_rules! drive {
                ($runner:expr) => {{
                    let mut runner = $runner;
                    for line in stdin.lock().lines() {
                        let line = line.unwrap();
                        let toks: Vec<&str> = line.split_whitespace().collect();
                        let ans = runner.step(&toks);
                        writeln!(out, "{}", ans).unwrap();
                        if flush {
                            out.flush().unwrap();
                        }
                    }
                }};
            }
            match prop {
                "C01" => drive!(c01::Runner::new()),
                "C02" => drive!(c02::Runner::new()),
                "C03" => drive!(c03::Runner::new()),
                "C04" => drive!(c04::Runner::new()),
                "C05" => drive!(c05::Runner::new()),
                "C06" => drive!(c06::Runner::new()),
                "C07" => drive!(c07::Runner::new()),
                "C08" => drive!(c08::Runner::new()),
                "C09" => drive!(c09::Runner::new()),
                "C10" => drive!(c10::Runner::new()),
                "C11" => drive!(c11::Runner::new()),
                "C12" => drive!(c12::Runner::new()),
                "C13" => drive!(c13::Runner::new()),
                "C14" => drive!(c14::Runner::new()),
                "C15" => drive!(c15::Runner::new()),
                "C16" => drive!(c16::Runner::new()),
                "C17" => drive!(c17::Runner::new()),
                "C18" => drive!(c18::Runner::new()),
                "C19" => drive!(c19::Runner::new()),
                "C20" => drive!(c20::Runner::new()),
                _ => {
                    eprintln!("unknown property {}", prop);
                    std::process::exit(2);
                }
            }
            out.flush().unwrap();
        }
        _ => std::process::exit(2),
    }
}
