//! emlv — correspondence harness: drives the real easy-ml code (path dependency on the
//! checkout under test) through the same line protocol the Lean model answers.
//!
//!   emlv gen <property> <quick|thorough> <seed>      operation lines on stdout
//!   emlv run <property>                              operation lines on stdin, answers on stdout

#![allow(dead_code, unused_imports, unused_macros)]
mod util;
mod exact;
mod c01;
mod c02;
mod c03;
mod c04;
mod c05;
mod c06;
mod c07;
mod c08;
mod c09;
mod c10;
mod c11;
mod c12;
mod c13;
mod c14;
mod c15;
mod c16;
mod c17;
mod c18;
mod c19;
mod c20;

use std::io::{BufRead, Write};

fn main() {
    let args: Vec<String> = std::env::args().collect();
    if args.len() < 3 {
        eprintln!("usage: emlv gen <property> <tier> <seed> | emlv run <property>");
        std::process::exit(2);
    }
    let prop = args[2].as_str();
    match args[1].as_str() {
        "gen" => {
            let thorough = args.get(3).map(|s| s == "thorough").unwrap_or(false);
            let seed: u64 = args.get(4).and_then(|s| s.parse().ok()).unwrap_or(0);
            let mut g = util::Gen::new(seed, thorough);
            match prop {
                "C01" => c01::gen(&mut g),
                "C02" => c02::gen(&mut g),
                "C03" => c03::gen(&mut g),
                "C04" => c04::gen(&mut g),
                "C05" => c05::gen(&mut g),
                "C06" => c06::gen(&mut g),
                "C07" => c07::gen(&mut g),
                "C08" => c08::gen(&mut g),
                "C09" => c09::gen(&mut g),
                "C10" => c10::gen(&mut g),
                "C11" => c11::gen(&mut g),
                "C12" => c12::gen(&mut g),
                "C13" => c13::gen(&mut g),
                "C14" => c14::gen(&mut g),
                "C15" => c15::gen(&mut g),
                "C16" => c16::gen(&mut g),
                "C17" => c17::gen(&mut g),
                "C18" => c18::gen(&mut g),
                "C19" => c19::gen(&mut g),
                "C20" => c20::gen(&mut g),
                _ => {
                    eprintln!("unknown property {}", prop);
                    std::process::exit(2);
                }
            }
            g.finish();
        }
        "run" => {
            util::silence_panics();
            // EMLV_FLUSH=1: flush after every answer, so that after a process abort the
            // orchestrator can tell which operation killed the process.
            // Execution modes used by the determinism check (C18); the answers must not depend on them:
            //   EMLV_THREAD=1     run on a spawned thread instead of the main thread
            //   EMLV_PERTURB=<n>  allocate/free blocks of pseudo-random sizes between operations
            //   EMLV_REVERSE=1    execute the independent cases (`@` segments) in reverse order
            let flush = std::env::var("EMLV_FLUSH").is_ok();
            let on_thread = std::env::var("EMLV_THREAD").is_ok();
            let reverse = std::env::var("EMLV_REVERSE").is_ok();
            let perturb: Option<u64> = std::env::var("EMLV_PERTURB").ok().and_then(|s| s.parse().ok());
            let lines: Vec<String> = std::io::stdin().lock().lines().map(|l| l.unwrap()).collect();
            macro_rules! drive {
                ($runner:expr) => {{
                    let work = move || {
                        let stdout = std::io::stdout();
                        let mut out = std::io::BufWriter::new(stdout.lock());
                        let mut runner = $runner;
                        // segments: maximal runs of lines starting at an `@` line
                        let mut starts: Vec<usize> = (0..lines.len()).filter(|&i| lines[i].starts_with('@')).collect();
                        if starts.first() != Some(&0) {
                            starts.insert(0, 0);
                        }
                        let mut segments: Vec<(usize, usize)> = vec![];
                        for (k, &s) in starts.iter().enumerate() {
                            let e = if k + 1 < starts.len() { starts[k + 1] } else { lines.len() };
                            if s < e {
                                segments.push((s, e));
                            }
                        }
                        if reverse {
                            segments.reverse();
                        }
                        let mut rng = util::Rng::new(perturb.unwrap_or(0));
                        let mut junk: Vec<Vec<u8>> = vec![];
                        let mut answers: Vec<String> = vec![String::new(); lines.len()];
                        for (s, e) in segments {
                            for i in s..e {
                                if perturb.is_some() {
                                    let n = rng.below(4096) + 1;
                                    junk.push(vec![rng.next() as u8; n]);
                                    if junk.len() > 64 {
                                        let k = rng.below(junk.len());
                                        junk.swap_remove(k);
                                    }
                                }
                                let toks: Vec<&str> = lines[i].split_whitespace().collect();
                                let ans = runner.step(&toks);
                                if reverse {
                                    answers[i] = ans;
                                } else {
                                    writeln!(out, "{}", ans).unwrap();
                                    if flush {
                                        out.flush().unwrap();
                                    }
                                }
                            }
                        }
                        if reverse {
                            for a in &answers {
                                writeln!(out, "{}", a).unwrap();
                            }
                        }
                        out.flush().unwrap();
                        #[cfg(feature = "hooks")]
                        {
                            let (checked, failed) = easy_ml::verif_hooks::take_counts();
                            eprintln!("#hook checked={} failed={}", checked, failed);
                        }
                    };
                    if on_thread {
                        std::thread::Builder::new()
                            .stack_size(64 << 20)
                            .spawn(work)
                            .unwrap()
                            .join()
                            .unwrap();
                    } else {
                        work();
                    }
                }};
            }
            match prop {
                "C01" => drive!(c01::Runner::new()),
                "C02" => drive!(c02::Runner::new()),
                "C03" => drive!(c03::Runner::new()),
                "C04" => drive!(c04::Runner::new()),
                "C05" => drive!(c05::Runner::new()),
                "C06" => drive!(c06::Runner::new()),
                "C07" => drive!(c07::Runner::new()),
                "C08" => drive!(c08::Runner::new()),
                "C09" => drive!(c09::Runner::new()),
                "C10" => drive!(c10::Runner::new()),
                "C11" => drive!(c11::Runner::new()),
                "C12" => drive!(c12::Runner::new()),
                "C13" => drive!(c13::Runner::new()),
                "C14" => drive!(c14::Runner::new()),
                "C15" => drive!(c15::Runner::new()),
                "C16" => drive!(c16::Runner::new()),
                "C17" => drive!(c17::Runner::new()),
                "C18" => drive!(c18::Runner::new()),
                "C19" => drive!(c19::Runner::new()),
                "C20" => drive!(c20::Runner::new()),
                _ => {
                    eprintln!("unknown property {}", prop);
                    std::process::exit(2);
                }
            }
        }
        _ => std::process::exit(2),
    }
}
