//! emlv-C19 — correspondence harness binary of property C19 (see src/driver.rs).
#![allow(dead_code, unused_imports, unused_macros)]
#[path = "../util.rs"]
mod util;
#[path = "../exact.rs"]
mod exact;
#[macro_use]
#[path = "../driver.rs"]
mod driver;
#[path = "../c19.rs"]
mod c19;

emlv_main!(c19);
