//! emlv-C16 — correspondence harness binary of property C16 (see src/driver.rs).
#![allow(dead_code, unused_imports, unused_macros)]
#[path = "../util.rs"]
mod util;
#[path = "../exact.rs"]
mod exact;
#[macro_use]
#[path = "../driver.rs"]
mod driver;
#[path = "../c16.rs"]
mod c16;

emlv_main!(c16);
