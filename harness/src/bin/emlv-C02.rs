//! emlv-C02 — correspondence harness binary of property C02 (see src/driver.rs).
#![allow(dead_code, unused_imports, unused_macros)]
#[path = "../util.rs"]
mod util;
#[path = "../exact.rs"]
mod exact;
#[macro_use]
#[path = "../driver.rs"]
mod driver;
#[path = "../c02.rs"]
mod c02;

emlv_main!(c02);
