//! emlv-C07 — correspondence harness binary of property C07 (see src/driver.rs).
#![allow(dead_code, unused_imports, unused_macros)]
#[path = "../util.rs"]
mod util;
#[path = "../exact.rs"]
mod exact;
#[macro_use]
#[path = "../driver.rs"]
mod driver;
#[path = "../c07.rs"]
mod c07;

emlv_main!(c07);
