//! emlv-C05 — correspondence harness binary of property C05 (see src/driver.rs).
#![allow(dead_code, unused_imports, unused_macros)]
#[path = "../util.rs"]
mod util;
#[path = "../exact.rs"]
mod exact;
#[macro_use]
#[path = "../driver.rs"]
mod driver;
#[path = "../c04.rs"]
mod c04;
#[path = "../c05.rs"]
mod c05;

emlv_main!(c05);
