//! emlv-C08 — correspondence harness binary of property C08 (see src/driver.rs).
#![allow(dead_code, unused_imports, unused_macros)]
#[path = "../util.rs"]
mod util;
#[path = "../exact.rs"]
mod exact;
#[macro_use]
#[path = "../driver.rs"]
mod driver;
#[path = "../c08.rs"]
mod c08;

emlv_main!(c08);
