//! emlv-C20 — correspondence harness binary of property C20 (see src/driver.rs).
#![allow(dead_code, unused_imports, unused_macros)]
#[path = "../util.rs"]
mod util;
#[path = "../exact.rs"]
mod exact;
#[macro_use]
#[path = "../driver.rs"]
mod driver;
#[path = "../c20.rs"]
mod c20;

emlv_main!(c20);
