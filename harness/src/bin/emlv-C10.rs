//! emlv-C10 — correspondence harness binary of property C10 (see src/driver.rs).
#![allow(dead_code, unused_imports, unused_macros)]
#[path = "../util.rs"]
mod util;
#[path = "../exact.rs"]
mod exact;
#[macro_use]
#[path = "../driver.rs"]
mod driver;
#[path = "../c10.rs"]
mod c10;

emlv_main!(c10);
