//! emlv-C14 — correspondence harness binary of property C14 (see src/driver.rs).
#![allow(dead_code, unused_imports, unused_macros)]
#[path = "../util.rs"]
mod util;
#[path = "../exact.rs"]
mod exact;
#[macro_use]
#[path = "../driver.rs"]
mod driver;
#[path = "../c03.rs"]
mod c03;
#[path = "../c14.rs"]
mod c14;

emlv_main!(c14);
