//! emlv-C18 — correspondence harness binary of property C18 (see src/driver.rs).
#![allow(dead_code, unused_imports, unused_macros)]
#[path = "../util.rs"]
mod util;
#[path = "../exact.rs"]
mod exact;
#[macro_use]
#[path = "../driver.rs"]
mod driver;
#[path = "../c18.rs"]
mod c18;

emlv_main!(c18);
