//! emlv-C11 — correspondence harness binary of property C11 (see src/driver.rs).
#![allow(dead_code, unused_imports, unused_macros)]
#[path = "../util.rs"]
mod util;
#[path = "../exact.rs"]
mod exact;
#[macro_use]
#[path = "../driver.rs"]
mod driver;
#[path = "../c11.rs"]
mod c11;

emlv_main!(c11);
