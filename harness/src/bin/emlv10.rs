//! emlv10 — the C10 workload of the harness as a small separate binary, so that it can be
//! built in the release profile (overflow checks off) in seconds: the sweep of props/c10_extra.py
//! runs it against the model's answers, because two defects of the element-count validation are
//! silent only there.
//!
//!   emlv10 gen C10 <quick|thorough> <seed>
//!   emlv10 run C10           operation lines on stdin, answers on stdout (EMLV_FLUSH honoured)

#![allow(dead_code, unused_imports, unused_macros)]
#[path = "../util.rs"]
mod util;
#[path = "../c10.rs"]
mod c10;

use std::io::{BufRead, Write};

fn main() {
    let args: Vec<String> = std::env::args().collect();
    if args.len() < 3 || args[2] != "C10" {
        eprintln!("usage: emlv10 gen C10 <tier> <seed> | emlv10 run C10");
        std::process::exit(2);
    }
    match args[1].as_str() {
        "gen" => {
            let thorough = args.get(3).map(|s| s == "thorough").unwrap_or(false);
            let seed: u64 = args.get(4).and_then(|s| s.parse().ok()).unwrap_or(0);
            let mut g = util::Gen::new(seed, thorough);
            c10::gen(&mut g);
            g.finish();
        }
        "run" => {
            util::silence_panics();
            let flush = std::env::var("EMLV_FLUSH").is_ok();
            let stdout = std::io::stdout();
            let mut out = std::io::BufWriter::new(stdout.lock());
            let mut runner = c10::Runner::new();
            for line in std::io::stdin().lock().lines() {
                let line = line.unwrap();
                let toks: Vec<&str> = line.split_whitespace().collect();
                writeln!(out, "{}", runner.step(&toks)).unwrap();
                if flush {
                    out.flush().unwrap();
                }
            }
            out.flush().unwrap();
            #[cfg(feature = "hooks")]
            {
                let (checked, failed) = easy_ml::verif_hooks::take_counts();
                eprintln!("#hook checked={} failed={}", checked, failed);
            }
        }
        _ => std::process::exit(2),
    }
}
