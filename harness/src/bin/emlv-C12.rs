//! emlv-C12 — correspondence harness binary of property C12 (see src/driver.rs).
#![allow(dead_code, unused_imports, unused_macros)]
#[path = "../util.rs"]
mod util;
#[path = "../exact.rs"]
mod exact;
#[macro_use]
#[path = "../driver.rs"]
mod driver;
#[path = "../c16.rs"]
mod c16;
#[path = "../c11.rs"]
mod c11;
#[path = "../c12.rs"]
mod c12;

emlv_main!(c12);
