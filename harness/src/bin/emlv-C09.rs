//! emlv-C09 — correspondence harness binary of property C09 (see src/driver.rs).
#![allow(dead_code, unused_imports, unused_macros)]
#[path = "../util.rs"]
mod util;
#[path = "../exact.rs"]
mod exact;
#[macro_use]
#[path = "../driver.rs"]
mod driver;
#[path = "../c09.rs"]
mod c09;

emlv_main!(c09);
