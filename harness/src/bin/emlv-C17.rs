//! emlv-C17 — correspondence harness binary of property C17 (see src/driver.rs).
#![allow(dead_code, unused_imports, unused_macros)]
#[path = "../util.rs"]
mod util;
#[path = "../exact.rs"]
mod exact;
#[macro_use]
#[path = "../driver.rs"]
mod driver;
#[path = "../c08.rs"]
mod c08;
#[path = "../c17.rs"]
mod c17;

emlv_main!(c17);
