//! emlv-C13 — correspondence harness binary of property C13 (see src/driver.rs).
#![allow(dead_code, unused_imports, unused_macros)]
#[path = "../util.rs"]
mod util;
#[path = "../exact.rs"]
mod exact;
#[macro_use]
#[path = "../driver.rs"]
mod driver;
#[path = "../c13.rs"]
mod c13;

emlv_main!(c13);
