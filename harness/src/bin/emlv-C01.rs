//! emlv-C01 — correspondence harness binary of property C01 (see src/driver.rs).
#![allow(dead_code, unused_imports, unused_macros)]
#[path = "../util.rs"]
mod util;
#[path = "../exact.rs"]
mod exact;
#[macro_use]
#[path = "../driver.rs"]
mod driver;
#[path = "../c01.rs"]
mod c01;

emlv_main!(c01);
