//! C19 — numeric trait contracts: correspondence driver.
//!
//! Line protocol (every line is an independent case, see lean/Driver/C19.lean):
//!
//!   @ from_usize <ty> <wrap> <n>
//!   @ from_usize_range <ty> <wrap> <lo> <hi>
//!   @ zero_one <ty> <wrap>
//!   @ op <ty> <wrap> <add|sub|mul|div|neg> <a> <b>
//!   @ ident <ty> <wrap> <a>
//!   @ fop <f32|f64> <op> <abits> <bbits>
//!   @ fident <f32|f64> <abits>
//!   @ user <routine> <Fp|Rat> <args…>          (c19_user.rs)
//!   @ userw <routine> <wrapping_i8|wrapping_u8|wrapping_i16> <matrix>   routines that call `T::from_usize`
//!   @ trop|trsc|trneg|trpow|recop|recsc|recneg|recpow …   Trace / Record operators (c19_wrap.rs)
//!
//! The operators are reached through easy-ml's own trait machinery wherever the type is
//! `Numeric` (`T: Numeric, for<'a> &'a T: NumericRef<T>`), so the blanket impls of
//! src/numeric.rs are what resolves all four owned/borrowed operand forms.  Unsigned plain
//! integers and `Saturating<unsigned>` have no `Neg` and are therefore not `Numeric`; for them
//! the four forms are spelled out on the concrete type.  (With the std of the pinned toolchain no
//! `Saturating<T>` is `Numeric` at all: the signed ones lack `Sum`.)

use crate::util::*;
use easy_ml::differentiation::{Primitive, Record, Trace};
use easy_ml::numeric::{FromUsize, Numeric, NumericRef, ZeroOne};
use std::fmt::{Debug, Display};
use std::num::{Saturating, Wrapping};

#[path = "c19_user.rs"]
pub mod user;
#[path = "c19_wrap.rs"]
pub mod wrap;

pub const INT_TYS: [&str; 12] =
    ["u8", "i8", "u16", "i16", "u32", "i32", "u64", "i64", "u128", "i128", "usize", "isize"];

/// The twelve primitive integer types, seen through one interface.
pub trait Prim:
    Copy + Debug + Display + PartialEq + FromUsize + ZeroOne + std::str::FromStr + Primitive + 'static
{
    const BITS: u32;
    const SIGNED: bool;
    fn as_i128(self) -> i128;
    fn from_bits(bits: u128) -> Self;
    fn checked(op: &str, a: Self, b: Self) -> Option<Self>;
    fn max() -> Self;
    fn min() -> Self;
}

macro_rules! impl_prim {
    ($T:ty, $signed:expr) => {
        impl Prim for $T {
            const BITS: u32 = <$T>::BITS;
            const SIGNED: bool = $signed;
            fn as_i128(self) -> i128 {
                self as i128
            }
            fn from_bits(bits: u128) -> Self {
                bits as $T
            }
            fn checked(op: &str, a: Self, b: Self) -> Option<Self> {
                match op {
                    "add" => a.checked_add(b),
                    "sub" => a.checked_sub(b),
                    "mul" => a.checked_mul(b),
                    "div" => a.checked_div(b),
                    "neg" => a.checked_neg(),
                    _ => None,
                }
            }
            fn max() -> Self {
                <$T>::MAX
            }
            fn min() -> Self {
                <$T>::MIN
            }
        }
    };
}
impl_prim!(u8, false);
impl_prim!(i8, true);
impl_prim!(u16, false);
impl_prim!(i16, true);
impl_prim!(u32, false);
impl_prim!(i32, true);
impl_prim!(u64, false);
impl_prim!(i64, true);
impl_prim!(u128, false);
impl_prim!(i128, true);
impl_prim!(usize, false);
impl_prim!(isize, true);

/// Dispatch a type name to the concrete primitive integer type.
macro_rules! with_int {
    ($ty:expr, $T:ident => $body:expr, else $other:expr) => {
        match $ty {
            "u8" => { type $T = u8; $body }
            "i8" => { type $T = i8; $body }
            "u16" => { type $T = u16; $body }
            "i16" => { type $T = i16; $body }
            "u32" => { type $T = u32; $body }
            "i32" => { type $T = i32; $body }
            "u64" => { type $T = u64; $body }
            "i64" => { type $T = i64; $body }
            "u128" => { type $T = u128; $body }
            "i128" => { type $T = i128; $body }
            "usize" => { type $T = usize; $body }
            "isize" => { type $T = isize; $body }
            _ => $other,
        }
    };
}

/// Dispatch to a signed primitive integer type only.
macro_rules! with_signed {
    ($ty:expr, $T:ident => $body:expr, else $other:expr) => {
        match $ty {
            "i8" => { type $T = i8; $body }
            "i16" => { type $T = i16; $body }
            "i32" => { type $T = i32; $body }
            "i64" => { type $T = i64; $body }
            "i128" => { type $T = i128; $body }
            "isize" => { type $T = isize; $body }
            _ => $other,
        }
    };
}

fn is_signed(ty: &str) -> bool {
    ty.starts_with('i')
}

fn is_float(ty: &str) -> bool {
    ty == "f32" || ty == "f64"
}

// ---------------------------------------------------------------------------------------------
// from_usize / zero / one through the wrapper stack
// ---------------------------------------------------------------------------------------------

/// Something whose number can be shown the way the model shows it.
pub trait Shown {
    fn shown(&self) -> String;
    /// value minus `n` as an integer (integers only; used by the range encoding)
    fn minus(&self, n: usize) -> Option<i128>;
}
macro_rules! shown_int {
    ($($T:ty),*) => {$(
        impl Shown for $T {
            fn shown(&self) -> String { self.to_string() }
            fn minus(&self, n: usize) -> Option<i128> { Some((*self as i128).wrapping_sub(n as i128)) }
        }
    )*};
}
shown_int!(u8, i8, u16, i16, u32, i32, u64, i64, u128, i128, usize, isize);
impl Shown for f32 {
    fn shown(&self) -> String { format!("bits:{}", self.to_bits()) }
    fn minus(&self, _n: usize) -> Option<i128> { None }
}
impl Shown for f64 {
    fn shown(&self) -> String { format!("bits:{}", self.to_bits()) }
    fn minus(&self, _n: usize) -> Option<i128> { None }
}
impl<T: Shown> Shown for Wrapping<T> {
    fn shown(&self) -> String { self.0.shown() }
    fn minus(&self, n: usize) -> Option<i128> { self.0.minus(n) }
}
impl<T: Shown> Shown for Saturating<T> {
    fn shown(&self) -> String { self.0.shown() }
    fn minus(&self, n: usize) -> Option<i128> { self.0.minus(n) }
}

/// (number, extra text) of `E::from_usize(n)`
fn fu_plain<E: FromUsize + Shown>(n: usize) -> Option<(String, Option<i128>, String)> {
    E::from_usize(n).map(|v| (v.shown(), v.minus(n), String::new()))
}

fn fu_trace<E: Numeric + Primitive + Shown>(n: usize) -> Option<(String, Option<i128>, String)> {
    Trace::<E>::from_usize(n).map(|t| (t.number.shown(), t.number.minus(n), format!(" der={}", t.derivative.shown())))
}

fn fu_record<E: Numeric + Primitive + Shown + 'static>(n: usize) -> Option<(String, Option<i128>, String)> {
    Record::<'static, E>::from_usize(n).map(|r| {
        let hist = if r.history().is_some() { "some" } else { "none" };
        (r.number.shown(), r.number.minus(n), format!(" hist={} idx={}", hist, r.index))
    })
}

type Fu = Option<(String, Option<i128>, String)>;

/// `from_usize` of `<wrap>` over `<ty>`; `Err` if the combination does not exist in Rust
/// (e.g. `Trace<u8>`: `u8` is not `Numeric`).
fn from_usize_any(ty: &str, wrap: &str, n: usize) -> Result<Fu, String> {
    let bad = || Err(format!("no-such-type {} {}", ty, wrap));
    match (ty, wrap) {
        ("f32", "plain") => Ok(fu_plain::<f32>(n)),
        ("f64", "plain") => Ok(fu_plain::<f64>(n)),
        ("f32", "wrapping") => Ok(fu_plain::<Wrapping<f32>>(n)),
        ("f64", "wrapping") => Ok(fu_plain::<Wrapping<f64>>(n)),
        ("f32", "saturating") => Ok(fu_plain::<Saturating<f32>>(n)),
        ("f64", "saturating") => Ok(fu_plain::<Saturating<f64>>(n)),
        ("f32", "trace") => Ok(fu_trace::<f32>(n)),
        ("f64", "trace") => Ok(fu_trace::<f64>(n)),
        ("f32", "record") => Ok(fu_record::<f32>(n)),
        ("f64", "record") => Ok(fu_record::<f64>(n)),
        (_, "plain") => with_int!(ty, T => Ok(fu_plain::<T>(n)), else bad()),
        (_, "wrapping") => with_int!(ty, T => Ok(fu_plain::<Wrapping<T>>(n)), else bad()),
        (_, "saturating") => with_int!(ty, T => Ok(fu_plain::<Saturating<T>>(n)), else bad()),
        (_, "trace") => with_signed!(ty, T => Ok(fu_trace::<T>(n)), else bad()),
        (_, "record") => with_signed!(ty, T => Ok(fu_record::<T>(n)), else bad()),
        (_, "trace_wrapping") => with_int!(ty, T => Ok(fu_trace::<Wrapping<T>>(n)), else bad()),
        (_, "record_wrapping") => with_int!(ty, T => Ok(fu_record::<Wrapping<T>>(n)), else bad()),
        _ => bad(),
    }
}

/// Which wrappers exist for a type name.
pub fn wraps_of(ty: &str) -> Vec<&'static str> {
    if is_float(ty) {
        vec!["plain", "wrapping", "saturating", "trace", "record"]
    } else if is_signed(ty) {
        vec![
            "plain", "wrapping", "saturating", "trace", "record", "trace_wrapping", "record_wrapping",
        ]
    } else {
        vec!["plain", "wrapping", "saturating", "trace_wrapping", "record_wrapping"]
    }
}

fn from_usize_line(ty: &str, wrap: &str, n: usize) -> String {
    match from_usize_any(ty, wrap, n) {
        Err(e) => e,
        Ok(Some((v, _, extra))) => format!("some({}){}", v, extra),
        Ok(None) => "none".to_string(),
    }
}

fn range_key(ty: &str, wrap: &str, n: usize) -> String {
    match from_usize_any(ty, wrap, n) {
        Err(e) => e,
        Ok(Some((_, Some(d), extra))) => {
            if d >= 0 { format!("+{}{}", d, extra) } else { format!("{}{}", d, extra) }
        }
        Ok(Some((_, None, _))) => "bad".to_string(),
        Ok(None) => "none".to_string(),
    }
}

fn range_line(ty: &str, wrap: &str, lo: usize, hi: usize) -> String {
    let mut runs: Vec<String> = vec![];
    let mut start = lo;
    let mut cur = range_key(ty, wrap, lo);
    let mut i = lo;
    while i < hi {
        i += 1;
        let key = range_key(ty, wrap, i);
        if key != cur {
            runs.push(format!("{}..{}:{}", start, i - 1, cur));
            start = i;
            cur = key;
        }
    }
    runs.push(format!("{}..{}:{}", start, hi, cur));
    runs.join(" ")
}

fn zo_plain<E: ZeroOne + Shown>() -> String {
    format!("zero={} one={}", E::zero().shown(), E::one().shown())
}
fn zo_trace<E: Numeric + Primitive + Shown>() -> String {
    let (z, o) = (Trace::<E>::zero(), Trace::<E>::one());
    format!("zero={} one={} der={},{}", z.number.shown(), o.number.shown(), z.derivative.shown(), o.derivative.shown())
}
fn zo_record<E: Numeric + Primitive + Shown + 'static>() -> String {
    let (z, o) = (Record::<'static, E>::zero(), Record::<'static, E>::one());
    let h = |r: &Record<'static, E>| if r.history().is_some() { "some" } else { "none" };
    format!("zero={} one={} hist={},{} idx={},{}", z.number.shown(), o.number.shown(), h(&z), h(&o), z.index, o.index)
}

fn zero_one_line(ty: &str, wrap: &str) -> String {
    let bad = || format!("no-such-type {} {}", ty, wrap);
    match (ty, wrap) {
        ("f32", "plain") => zo_plain::<f32>(),
        ("f64", "plain") => zo_plain::<f64>(),
        ("f32", "wrapping") => zo_plain::<Wrapping<f32>>(),
        ("f64", "wrapping") => zo_plain::<Wrapping<f64>>(),
        ("f32", "saturating") => zo_plain::<Saturating<f32>>(),
        ("f64", "saturating") => zo_plain::<Saturating<f64>>(),
        ("f32", "trace") => zo_trace::<f32>(),
        ("f64", "trace") => zo_trace::<f64>(),
        ("f32", "record") => zo_record::<f32>(),
        ("f64", "record") => zo_record::<f64>(),
        (_, "plain") => with_int!(ty, T => zo_plain::<T>(), else bad()),
        (_, "wrapping") => with_int!(ty, T => zo_plain::<Wrapping<T>>(), else bad()),
        (_, "saturating") => with_int!(ty, T => zo_plain::<Saturating<T>>(), else bad()),
        (_, "trace") => with_signed!(ty, T => zo_trace::<T>(), else bad()),
        (_, "record") => with_signed!(ty, T => zo_record::<T>(), else bad()),
        (_, "trace_wrapping") => with_int!(ty, T => zo_trace::<Wrapping<T>>(), else bad()),
        (_, "record_wrapping") => with_int!(ty, T => zo_record::<Wrapping<T>>(), else bad()),
        _ => bad(),
    }
}

// ---------------------------------------------------------------------------------------------
// the four operand forms
// ---------------------------------------------------------------------------------------------

fn show_res<E: Shown>(r: &Result<E, PanicKind>) -> String {
    match r {
        Ok(v) => v.shown(),
        Err(k) => panic_str(*k),
    }
}

/// One answer if all forms agree, otherwise all of them.
fn merge(forms: Vec<(&'static str, String)>) -> String {
    if forms.iter().all(|(_, s)| *s == forms[0].1) {
        forms[0].1.clone()
    } else {
        format!(
            "forms-differ({})",
            forms.iter().map(|(n, s)| format!("{}={}", n, s)).collect::<Vec<_>>().join(",")
        )
    }
}

/// All forms of `a op b` through easy-ml's `Numeric` / `NumericRef` bounds.
fn forms_numeric<E: Numeric + Shown>(op: &str, a: &E, b: &E) -> Option<String>
where
    for<'x> &'x E: NumericRef<E>,
{
    let r = match op {
        "add" => vec![
            ("vv", show_res(&catch(|| a.clone() + b.clone()))),
            ("vr", show_res(&catch(|| a.clone() + b))),
            ("rv", show_res(&catch(|| a + b.clone()))),
            ("rr", show_res(&catch(|| a + b))),
        ],
        "sub" => vec![
            ("vv", show_res(&catch(|| a.clone() - b.clone()))),
            ("vr", show_res(&catch(|| a.clone() - b))),
            ("rv", show_res(&catch(|| a - b.clone()))),
            ("rr", show_res(&catch(|| a - b))),
        ],
        "mul" => vec![
            ("vv", show_res(&catch(|| a.clone() * b.clone()))),
            ("vr", show_res(&catch(|| a.clone() * b))),
            ("rv", show_res(&catch(|| a * b.clone()))),
            ("rr", show_res(&catch(|| a * b))),
        ],
        "div" => vec![
            ("vv", show_res(&catch(|| a.clone() / b.clone()))),
            ("vr", show_res(&catch(|| a.clone() / b))),
            ("rv", show_res(&catch(|| a / b.clone()))),
            ("rr", show_res(&catch(|| a / b))),
        ],
        "neg" => vec![("v", show_res(&catch(|| -a.clone()))), ("r", show_res(&catch(|| -a)))],
        _ => return None,
    };
    Some(merge(r))
}

/// All forms of `a op b` on a concrete `Copy` type that is not `Numeric` (no `Neg`).
macro_rules! forms_concrete {
    ($op:expr, $a:expr, $b:expr) => {{
        let (a, b) = ($a, $b);
        let r = match $op {
            "add" => Some(vec![
                ("vv", show_res(&catch(|| a + b))),
                ("vr", show_res(&catch(|| a + &b))),
                ("rv", show_res(&catch(|| &a + b))),
                ("rr", show_res(&catch(|| &a + &b))),
            ]),
            "sub" => Some(vec![
                ("vv", show_res(&catch(|| a - b))),
                ("vr", show_res(&catch(|| a - &b))),
                ("rv", show_res(&catch(|| &a - b))),
                ("rr", show_res(&catch(|| &a - &b))),
            ]),
            "mul" => Some(vec![
                ("vv", show_res(&catch(|| a * b))),
                ("vr", show_res(&catch(|| a * &b))),
                ("rv", show_res(&catch(|| &a * b))),
                ("rr", show_res(&catch(|| &a * &b))),
            ]),
            "div" => Some(vec![
                ("vv", show_res(&catch(|| a / b))),
                ("vr", show_res(&catch(|| a / &b))),
                ("rv", show_res(&catch(|| &a / b))),
                ("rr", show_res(&catch(|| &a / &b))),
            ]),
            _ => None,
        };
        r.map(merge)
    }};
}

fn parse_val<T: Prim>(s: &str) -> Option<T> {
    s.parse::<T>().ok()
}

fn op_line(ty: &str, wrap: &str, op: &str, a: &str, b: &str) -> String {
    let bad = || "bad-op".to_string();
    macro_rules! go {
        ($T:ident, $E:ty, $wrapf:expr, numeric) => {{
            match (parse_val::<$T>(a), parse_val::<$T>(b)) {
                (Some(x), Some(y)) => {
                    let (x, y): ($E, $E) = ($wrapf(x), $wrapf(y));
                    forms_numeric::<$E>(op, &x, &y).unwrap_or_else(bad)
                }
                _ => bad(),
            }
        }};
        ($T:ident, $E:ty, $wrapf:expr, concrete) => {{
            match (parse_val::<$T>(a), parse_val::<$T>(b)) {
                (Some(x), Some(y)) => {
                    let (x, y): ($E, $E) = ($wrapf(x), $wrapf(y));
                    forms_concrete!(op, x, y).unwrap_or_else(bad)
                }
                _ => bad(),
            }
        }};
    }
    match wrap {
        "plain" => {
            if is_signed(ty) {
                with_signed!(ty, T => go!(T, T, (|v| v), numeric), else bad())
            } else {
                with_int!(ty, T => go!(T, T, (|v| v), concrete), else bad())
            }
        }
        "wrapping" => with_int!(ty, T => go!(T, Wrapping<T>, Wrapping, numeric), else bad()),
        // no `Saturating<T>` is `Numeric` (std: unsigned ones lack `Neg`, signed ones lack `Sum`)
        "saturating" if op == "neg" => with_signed!(ty, T => {
            match parse_val::<T>(a) {
                Some(x) => {
                    let x = Saturating(x);
                    merge(vec![("v", show_res(&catch(|| -x))), ("r", show_res(&catch(|| -&x)))])
                }
                None => bad(),
            }
        }, else bad()),
        "saturating" => with_int!(ty, T => go!(T, Saturating<T>, Saturating, concrete), else bad()),
        _ => bad(),
    }
}

/// `zero + a, a + zero, one * a, a * one`, each through all four forms.
fn ident_line(ty: &str, wrap: &str, a: &str) -> String {
    let bad = || "bad-op".to_string();
    macro_rules! go {
        ($E:ty, $x:expr, numeric) => {{
            let x: $E = $x;
            let (z, o) = (<$E as ZeroOne>::zero(), <$E as ZeroOne>::one());
            [forms_numeric::<$E>("add", &z, &x), forms_numeric::<$E>("add", &x, &z), forms_numeric::<$E>("mul", &o, &x), forms_numeric::<$E>("mul", &x, &o)]
                .iter()
                .map(|r| r.clone().unwrap_or_else(bad))
                .collect::<Vec<_>>()
                .join(",")
        }};
        ($E:ty, $x:expr, concrete) => {{
            let x: $E = $x;
            let (z, o) = (<$E as ZeroOne>::zero(), <$E as ZeroOne>::one());
            [forms_concrete!("add", z, x), forms_concrete!("add", x, z), forms_concrete!("mul", o, x), forms_concrete!("mul", x, o)]
                .iter()
                .map(|r| r.clone().unwrap_or_else(bad))
                .collect::<Vec<_>>()
                .join(",")
        }};
    }
    macro_rules! parsed {
        ($T:ident, $k:expr) => {
            match parse_val::<$T>(a) {
                Some(v) => $k(v),
                None => bad(),
            }
        };
    }
    match wrap {
        "plain" => {
            if is_signed(ty) {
                with_signed!(ty, T => parsed!(T, |v: T| go!(T, v, numeric)), else bad())
            } else {
                with_int!(ty, T => parsed!(T, |v: T| go!(T, v, concrete)), else bad())
            }
        }
        "wrapping" => with_int!(ty, T => parsed!(T, |v: T| go!(Wrapping<T>, Wrapping(v), numeric)), else bad()),
        "saturating" => with_int!(ty, T => parsed!(T, |v: T| go!(Saturating<T>, Saturating(v), concrete)), else bad()),
        _ => bad(),
    }
}

/// floats: the four forms are compared with each other only (bit patterns), never with the model
fn fop_line(ty: &str, op: &str, a: &str, b: &str) -> String {
    let r = match ty {
        "f32" => match (a.parse::<u32>(), b.parse::<u32>()) {
            (Ok(x), Ok(y)) => forms_numeric::<f32>(op, &f32::from_bits(x), &f32::from_bits(y)),
            _ => None,
        },
        "f64" => match (a.parse::<u64>(), b.parse::<u64>()) {
            (Ok(x), Ok(y)) => forms_numeric::<f64>(op, &f64::from_bits(x), &f64::from_bits(y)),
            _ => None,
        },
        _ => None,
    };
    match r {
        None => "bad-op".to_string(),
        Some(s) if s.starts_with("forms-differ") => s,
        Some(_) => "agree".to_string(),
    }
}

fn fident_generic<E: Numeric + Shown + PartialEq>(x: E) -> String
where
    for<'x> &'x E: NumericRef<E>,
{
    let (z, o) = (E::zero(), E::one());
    let mut bad = vec![];
    if !(x == x) {
        return "ident-ok".to_string(); // NaN: no identity is claimed
    }
    if !(z.clone() + x.clone() == x) || !(&z + &x == x) {
        bad.push("0+a");
    }
    if !(x.clone() + z.clone() == x) || !(&x + &z == x) {
        bad.push("a+0");
    }
    if !(o.clone() * x.clone() == x) || !(&o * &x == x) {
        bad.push("1*a");
    }
    if !(x.clone() * o.clone() == x) || !(&x * &o == x) {
        bad.push("a*1");
    }
    if bad.is_empty() { "ident-ok".to_string() } else { format!("ident-fails({}) at {}", bad.join(","), x.shown()) }
}

fn fident_line(ty: &str, a: &str) -> String {
    match ty {
        "f32" => a.parse::<u32>().map(|x| fident_generic::<f32>(f32::from_bits(x))).unwrap_or("bad-op".into()),
        "f64" => a.parse::<u64>().map(|x| fident_generic::<f64>(f64::from_bits(x))).unwrap_or("bad-op".into()),
        _ => "bad-op".into(),
    }
}

// ---------------------------------------------------------------------------------------------
// generator
// ---------------------------------------------------------------------------------------------

fn rand_bits(g: &mut Gen) -> u128 {
    ((g.rng.next() as u128) << 64) | g.rng.next() as u128
}

/// a value of `T`: edge values, small magnitudes, random full-width patterns
fn gen_val<T: Prim>(g: &mut Gen) -> T {
    match g.rng.below(10) {
        0..=2 => {
            // edges
            let k = g.rng.below(9);
            let max = T::max();
            let min = T::min();
            match k {
                0 => min,
                1 => max,
                2 => T::from_bits(0),
                3 => T::from_bits(1),
                4 => T::from_bits(max.as_i128() as u128 - 1),
                5 => T::from_bits((min.as_i128() + 1) as u128),
                6 => if T::SIGNED { T::from_bits((-1i128) as u128) } else { T::from_bits(2) },
                7 => T::from_bits((max.as_i128() as u128) / 2),
                _ => if T::SIGNED { T::from_bits((-2i128) as u128) } else { T::from_bits(3) },
            }
        }
        3..=5 => {
            // small magnitudes (products mostly representable)
            let half = (T::BITS / 2).max(2) - 1;
            let bits = g.rng.range(1, half as usize) as u32;
            let v = (rand_bits(g) & ((1u128 << bits) - 1)) as i128;
            if T::SIGNED && g.rng.chance(1, 2) { T::from_bits((-v) as u128) } else { T::from_bits(v as u128) }
        }
        6 => {
            // a power of two, +-1
            let k = g.rng.below(T::BITS as usize) as u32;
            let p = 1u128 << k;
            match g.rng.below(3) {
                0 => T::from_bits(p),
                1 => T::from_bits(p.wrapping_sub(1)),
                _ => T::from_bits(p.wrapping_add(1)),
            }
        }
        _ => T::from_bits(rand_bits(g)),
    }
}

fn gen_ops_for<T: Prim>(g: &mut Gen, ty: &str, pairs: usize) {
    let ops = ["add", "sub", "mul", "div"];
    for wrap in ["wrapping", "saturating", "plain"] {
        let mut made = 0;
        let mut attempts = 0;
        while made < pairs && attempts < pairs * 20 {
            attempts += 1;
            let a: T = gen_val(g);
            let b: T = gen_val(g);
            let has_neg = T::SIGNED || wrap == "wrapping";
            let op = if has_neg && g.rng.chance(1, 12) { "neg" } else { *g.rng.pick(&ops) };
            if wrap == "plain" {
                // plain integers: non-overflowing pairs only (overflow behaviour depends on the
                // profile); division by zero and MIN / -1 panic in every profile and are kept
                let fine = T::checked(op, a, b).is_some();
                let always_panics = op == "div";
                if !fine && !always_panics {
                    g.count("op.plain.skipped-overflowing");
                    continue;
                }
                if !fine {
                    g.count("op.plain.div-panic");
                }
            }
            g.op(format!("@ op {} {} {} {} {}", ty, wrap, op, a, b));
            g.count(&format!("op.{}.{}", wrap, op));
            g.count(&format!("op.type.{}", ty));
            if a == T::max() || a == T::min() || b == T::max() || b == T::min() {
                g.count("op.with-MIN-or-MAX-operand");
            }
            made += 1;
        }
        // identities
        for _ in 0..(pairs / 4).max(8) {
            let a: T = gen_val(g);
            g.op(format!("@ ident {} {} {}", ty, wrap, a));
            g.count(&format!("ident.{}", wrap));
        }
        for a in [T::min(), T::max(), T::from_bits(0), T::from_bits(1)] {
            g.op(format!("@ ident {} {} {}", ty, wrap, a));
            g.count(&format!("ident.{}", wrap));
        }
    }
}

fn boundary_counts<T: Prim>(g: &mut Gen) -> Vec<usize> {
    let mut v: Vec<usize> = vec![0, 1, 2, usize::MAX - 1, usize::MAX];
    let max = T::max().as_i128() as u128; // u128::MAX wraps to -1 -> u128::MAX again
    for d in [-2i64, -1, 0, 1, 2] {
        let c = max.wrapping_add(d as i128 as u128);
        if c <= usize::MAX as u128 {
            v.push(c as usize);
        }
    }
    for k in 0..64u32 {
        let p = 1usize << k;
        v.push(p);
        v.push(p - 1);
        v.push(p.wrapping_add(1));
    }
    for _ in 0..40 {
        let bits = g.rng.range(1, 64) as u32;
        v.push((g.rng.next() >> (64 - bits)) as usize);
    }
    v.sort();
    v.dedup();
    v
}

fn float_counts(g: &mut Gen, p: u32, extra: usize) -> Vec<usize> {
    let mut v: Vec<usize> = vec![0, 1, 2, 3, usize::MAX, usize::MAX - 1];
    for k in 0..64u32 {
        let q = 1usize << k;
        for d in 0..4usize {
            v.push(q.wrapping_add(d));
            v.push(q.wrapping_sub(d));
        }
    }
    // ties and near-ties: n = q * 2^s + r with r around half
    for _ in 0..extra {
        let l = g.rng.range(p as usize + 1, 64) as u32;
        let s = l - p;
        let q = ((g.rng.next() >> (64 - p)) | (1u64 << (p - 1))) as u128;
        let half = 1u128 << (s - 1);
        let r = match g.rng.below(6) {
            0 => 0,
            1 => half.wrapping_sub(1) & ((1u128 << s) - 1),
            2 => half,
            3 => (half + 1) & ((1u128 << s) - 1),
            4 => (1u128 << s) - 1,
            _ => (g.rng.next() as u128) & ((1u128 << s) - 1),
        };
        let n = (q << s) | r;
        if n <= usize::MAX as u128 {
            v.push(n as usize);
        }
        // all-ones mantissa that rounds up into the next binade
        let n2 = (((1u128 << p) - 1) << s) | r;
        if n2 <= usize::MAX as u128 {
            v.push(n2 as usize);
        }
    }
    for _ in 0..extra {
        let bits = g.rng.range(1, 64) as u32;
        v.push((g.rng.next() >> (64 - bits)) as usize);
    }
    v.sort();
    v.dedup();
    v
}

fn rand_float_bits(g: &mut Gen, f32_: bool) -> u64 {
    let edge32: [u32; 10] = [0, 0x8000_0000, 0x3f80_0000, 0xbf80_0000, 0x7f80_0000, 0xff80_0000, 0x7fc0_0000, 1, 0x7f7f_ffff, 0x0080_0000];
    let edge64: [u64; 10] = [
        0, 0x8000_0000_0000_0000, 0x3ff0_0000_0000_0000, 0xbff0_0000_0000_0000, 0x7ff0_0000_0000_0000,
        0xfff0_0000_0000_0000, 0x7ff8_0000_0000_0000, 1, 0x7fef_ffff_ffff_ffff, 0x0010_0000_0000_0000,
    ];
    if g.rng.chance(1, 5) {
        if f32_ { *g.rng.pick(&edge32) as u64 } else { *g.rng.pick(&edge64) }
    } else if g.rng.chance(1, 2) {
        // moderate magnitudes
        if f32_ {
            (((g.rng.below(2001) as f32) - 1000.0) / 8.0).to_bits() as u64
        } else {
            (((g.rng.below(2_000_001) as f64) - 1_000_000.0) / 64.0).to_bits()
        }
    } else if f32_ {
        g.rng.next() >> 32
    } else {
        g.rng.next()
    }
}

pub fn gen(g: &mut Gen) {
    let thorough = g.thorough;
    // ---- from_usize: boundaries for every type and wrapper ------------------------------------
    for ty in INT_TYS {
        let counts = with_int!(ty, T => boundary_counts::<T>(g), else vec![]);
        for wrap in wraps_of(ty) {
            for &n in &counts {
                g.op(format!("@ from_usize {} {} {}", ty, wrap, n));
                g.count(&format!("from_usize.{}", wrap));
            }
            g.count_n(&format!("from_usize.type.{}", ty), counts.len() as u64);
            // a window around MAX as one range line too
            let max = with_int!(ty, T => <T as Prim>::max().as_i128() as u128, else 0);
            if max < usize::MAX as u128 - 300 {
                g.op(format!("@ from_usize_range {} {} {} {}", ty, wrap, (max as usize).saturating_sub(300), max as usize + 300));
                g.count("from_usize.window-around-MAX");
            } else {
                g.op(format!("@ from_usize_range {} {} {} {}", ty, wrap, usize::MAX - 600, usize::MAX));
                g.count("from_usize.window-below-usize-MAX");
            }
            g.op(format!("@ zero_one {} {}", ty, wrap));
            g.count("zero_one");
            g.count(&format!("zero_one.arm.{}.{}", ty, wrap));
            g.count_n(&format!("from_usize.arm.{}.{}", ty, wrap), counts.len() as u64);
        }
    }
    for (ty, p) in [("f32", 24u32), ("f64", 53u32)] {
        let counts = float_counts(g, p, if thorough { 3000 } else { 400 });
        for wrap in wraps_of(ty) {
            for &n in &counts {
                g.op(format!("@ from_usize {} {} {}", ty, wrap, n));
                g.count(&format!("from_usize.{}", wrap));
            }
            g.count_n(&format!("from_usize.type.{}", ty), counts.len() as u64);
            g.op(format!("@ zero_one {} {}", ty, wrap));
            g.count("zero_one");
            g.count(&format!("zero_one.arm.{}.{}", ty, wrap));
            g.count_n(&format!("from_usize.arm.{}.{}", ty, wrap), counts.len() as u64);
        }
    }
    // ---- from_usize: exhaustive for the 8/16-bit types (all wrappers) --------------------------
    for ty in ["u8", "i8", "u16", "i16"] {
        for wrap in wraps_of(ty) {
            g.op(format!("@ from_usize_range {} {} 0 66000", ty, wrap));
            g.count("from_usize.exhaustive-range-lines");
            g.count_n("from_usize.counts-covered-by-ranges", 66001);
        }
    }
    // ---- operators: all operand forms ----------------------------------------------------------
    let pairs = if thorough { 10_000 } else { 1_200 };
    for ty in INT_TYS {
        with_int!(ty, T => gen_ops_for::<T>(g, ty, pairs), else ());
    }
    for ty in ["f32", "f64"] {
        for _ in 0..pairs {
            let a = rand_float_bits(g, ty == "f32");
            let b = rand_float_bits(g, ty == "f32");
            let op = *g.rng.pick(&["add", "sub", "mul", "div", "neg"]);
            g.op(format!("@ fop {} {} {} {}", ty, op, a, b));
            g.count(&format!("fop.{}.{}", ty, op));
        }
        for _ in 0..pairs / 4 {
            let a = rand_float_bits(g, ty == "f32");
            g.op(format!("@ fident {} {}", ty, a));
            g.count(&format!("fident.{}", ty));
        }
    }
    // ---- user-defined element types at every generic routine ---------------------------------
    user::gen(g);
    // ---- Trace / Record operators: every operand form --------------------------------------
    wrap::gen(g);
}

pub struct Runner;

impl Runner {
    pub fn new() -> Runner {
        Runner
    }

    pub fn step(&mut self, toks: &[&str]) -> String {
        match toks {
            ["@", "from_usize", ty, wrap, n] => match n.parse::<usize>() {
                Ok(n) => from_usize_line(ty, wrap, n),
                Err(_) => "bad-op".into(),
            },
            ["@", "from_usize_range", ty, wrap, lo, hi] => match (lo.parse::<usize>(), hi.parse::<usize>()) {
                (Ok(lo), Ok(hi)) if lo <= hi => range_line(ty, wrap, lo, hi),
                _ => "bad-op".into(),
            },
            ["@", "zero_one", ty, wrap] => zero_one_line(ty, wrap),
            ["@", "op", ty, wrap, op, a, b] => op_line(ty, wrap, op, a, b),
            ["@", "ident", ty, wrap, a] => ident_line(ty, wrap, a),
            ["@", "fop", ty, op, a, b] => fop_line(ty, op, a, b),
            ["@", "fident", ty, a] => fident_line(ty, a),
            ["@", "user", rest @ ..] => user::run(rest),
            ["@", "userw", rest @ ..] => user::run_wrapping(rest),
            ["@", cmd @ ("trop" | "trsc" | "trneg" | "trpow" | "recop" | "recsc" | "recneg" | "recsw" | "recpow" | "freal" | "trreal" | "recreal"), rest @ ..] => {
                wrap::run(cmd, rest)
            }
            _ => "bad-op".into(),
        }
    }
}
