//! C17 — Gaussian density and draws.  See lean/Driver/C17.lean for the protocol.
//!
//! `prob` lines: the part before `##` is the comparison of `Gaussian::<f64>::probability` with the
//! closed-form normal density at the floats given in `f=` (implementation against specification,
//! relative tolerance 1e-9; the model never sees a float); the part after it is the value of the
//! implementation's formula at an `Fp` point, compared with the code-shaped model's.
//! `draw` / `mv` lines run over `Fp` (uninterpreted `sqrt ln cos sin pi`), with a counting source.

use crate::c08::{parse_elems, show_elems, steer_chol, symmetrise, ParseElem};
use crate::exact::{Fp, Rat};
use easy_ml::numeric::extra::{Real, RealRef};
use crate::util::*;
use easy_ml::distributions::{
    Gaussian, MultivariateGaussian, MultivariateGaussianError, MultivariateGaussianTensor,
};
use easy_ml::matrices::Matrix;
use easy_ml::tensors::Tensor;

/// a uniform source that counts how many numbers were taken from it
struct Counting {
    inner: std::vec::IntoIter<Fp>,
    taken: usize,
}

impl Counting {
    fn new(v: Vec<Fp>) -> Counting {
        Counting { inner: v.into_iter(), taken: 0 }
    }
}

impl Iterator for Counting {
    type Item = Fp;
    fn next(&mut self) -> Option<Fp> {
        let x = self.inner.next();
        if x.is_some() {
            self.taken += 1;
        }
        x
    }
}

fn normal_pdf(mean: f64, variance: f64, x: f64) -> f64 {
    (1.0 / (2.0 * std::f64::consts::PI * variance).sqrt()) * (-(x - mean) * (x - mean) / (2.0 * variance)).exp()
}

// ---------------------------------------------------------------------------------------------
// API surface of the distribution types (C17 scope): every public constructor / accessor / alias
// and every trait impl, driven with values in which all fields differ
// ---------------------------------------------------------------------------------------------

fn okb(b: bool) -> &'static str {
    if b { "ok" } else { "bad" }
}

fn run_api(toks: &[&str]) -> String {
    let ids = |from: u64, n: usize| (0..n as u64).map(|i| Fp(from + i)).collect::<Vec<Fp>>();
    let r = catch(|| match toks[2] {
        "gaussian" => {
            let (m, v, m2, v2) = (Fp(3), Fp(4), Fp(50), Fp(60));
            let g = Gaussian::new(m.clone(), v.clone());
            let new = g.mean == m && g.variance == v;
            let c = g.clone();
            let clone = c.mean == m && c.variance == v;
            // `clone_from` into a target that differs from the source in every field — directly
            // and through the containers that forward to it
            let mut target = Gaussian::new(m2.clone(), v2.clone());
            target.clone_from(&g);
            let mut in_vec = vec![Gaussian::new(m2.clone(), v2.clone())];
            in_vec.clone_from(&vec![g.clone()]);
            let mut in_option = Some(Gaussian::new(m2.clone(), v2.clone()));
            in_option.clone_from(&Some(g.clone()));
            let got = in_option.unwrap();
            let clone_from = target.mean == m && target.variance == v
                && in_vec[0].mean == m && in_vec[0].variance == v
                && got.mean == m && got.variance == v;
            let text = format!("{:?}", g);
            let debug = text.starts_with("Gaussian")
                && text.contains(&format!("mean: {:?}", m))
                && text.contains(&format!("variance: {:?}", v));
            // the deprecated alias is the density
            #[allow(deprecated)]
            let alias = g.map(&Fp(9)) == g.probability(&Fp(9));
            format!(
                "new={} clone={} clone_from={} debug={} map={}",
                okb(new), okb(clone), okb(clone_from), okb(debug), okb(alias)
            )
        }
        "mvmatrix" => {
            let mean = Matrix::column(ids(1, 2));
            let cov = Matrix::from_flat_row_major((2, 2), ids(100, 4));
            let g = MultivariateGaussian::new(mean.clone(), cov.clone());
            let accessors = *g.mean() == mean && *g.covariance() == cov;
            let c = g.clone();
            let clone = *c.mean() == mean && *c.covariance() == cov;
            let mut target = MultivariateGaussian::new(Matrix::column(ids(500, 3)), Matrix::from_flat_row_major((3, 3), ids(700, 9)));
            target.clone_from(&g);
            let mut in_option = Some(MultivariateGaussian::new(Matrix::column(ids(500, 3)), Matrix::from_flat_row_major((3, 3), ids(700, 9))));
            in_option.clone_from(&Some(g.clone()));
            let got = in_option.unwrap();
            let clone_from = *target.mean() == mean && *target.covariance() == cov
                && *got.mean() == mean && *got.covariance() == cov;
            let text = format!("{:?}", g);
            let debug = text.starts_with("MultivariateGaussian")
                && text.contains(&format!("mean: {:?}", mean))
                && text.contains(&format!("covariance: {:?}", cov));
            format!("new+accessors={} clone={} clone_from={} debug={}", okb(accessors), okb(clone), okb(clone_from), okb(debug))
        }
        "mvtensor" => {
            let mean = Tensor::from([("m", 2)], ids(1, 2));
            let cov = Tensor::from([("a", 2), ("b", 2)], ids(100, 4));
            let other = || {
                MultivariateGaussianTensor::new(
                    Tensor::from([("x", 3)], ids(500, 3)),
                    Tensor::from([("y", 3), ("z", 3)], ids(700, 9)),
                )
                .expect("valid")
            };
            let g = MultivariateGaussianTensor::new(mean.clone(), cov.clone()).expect("valid");
            let accessors = *g.mean() == mean && *g.covariance() == cov;
            let c = g.clone();
            let clone = *c.mean() == mean && *c.covariance() == cov;
            let mut target = other();
            target.clone_from(&g);
            let mut in_vec = vec![other()];
            in_vec.clone_from(&vec![g.clone()]);
            let clone_from = *target.mean() == mean && *target.covariance() == cov
                && *in_vec[0].mean() == mean && *in_vec[0].covariance() == cov;
            let text = format!("{:?}", g);
            let debug = text.starts_with("MultivariateGaussianTensor")
                && text.contains(&format!("mean: {:?}", mean))
                && text.contains(&format!("covariance: {:?}", cov));
            format!("new+accessors={} clone={} clone_from={} debug={}", okb(accessors), okb(clone), okb(clone_from), okb(debug))
        }
        "error" => {
            use std::error::Error;
            let mean = Tensor::from([("m", 2)], ids(1, 2));
            let not_square = Tensor::from([("a", 2), ("b", 3)], ids(100, 6));
            let square = Tensor::from([("a", 3), ("b", 3)], ids(200, 9));
            let e1 = *MultivariateGaussianTensor::new(mean.clone(), not_square.clone()).err().expect("not square");
            let e2 = *MultivariateGaussianTensor::new(mean.clone(), square.clone()).err().expect("wrong length");
            let variants = matches!(e1, MultivariateGaussianError::NotCovarianceMatrix { .. })
                && matches!(e2, MultivariateGaussianError::MeanVectorWrongLength { .. });
            let clone = e1.clone() == e1 && e2.clone() == e2;
            let mut target = e2.clone();
            target.clone_from(&e1);
            let clone_from = target == e1;
            let partial_eq = e1 != e2
                && e1 == MultivariateGaussianError::NotCovarianceMatrix { mean: mean.clone(), covariance: not_square.clone() }
                && e1 != MultivariateGaussianError::NotCovarianceMatrix { mean: mean.clone(), covariance: square.clone() }
                && e2 != MultivariateGaussianError::MeanVectorWrongLength { mean: Tensor::from([("m", 2)], ids(7, 2)), covariance: square.clone() };
            let text = format!("{:?}", e1);
            let debug = text.starts_with("NotCovarianceMatrix")
                && text.contains(&format!("mean: {:?}", mean))
                && text.contains(&format!("covariance: {:?}", not_square));
            let display = format!("{}", e1) == format!("Covariance matrix is not square: {:?}", not_square)
                && format!("{}", e2)
                    == format!(
                        "Mean vector has a different length {:?} to the covariance matrix size: {:?}",
                        mean.shape(), square.shape()
                    );
            let source = e1.source().is_none() && e2.source().is_none();
            let shown = format!("{}", e2);
            let boxed: Box<dyn Error> = Box::from(e2);
            let into_box = boxed.to_string() == shown;
            format!(
                "variants={} clone={} clone_from={} partial_eq={} debug={} display={} source={} into_box={}",
                okb(variants), okb(clone), okb(clone_from), okb(partial_eq), okb(debug), okb(display), okb(source), okb(into_box)
            )
        }
        _ => "bad-op".to_string(),
    });
    match r {
        Ok(s) => s,
        Err(k) => panic_str(k),
    }
}

const C17_TYPES: [&str; 4] = ["Gaussian", "MultivariateGaussian", "MultivariateGaussianTensor", "MultivariateGaussianError"];
const C17_DRIVEN: [&str; 28] = [
    "Gaussian::new", "Gaussian::approximating", "Gaussian::probability", "Gaussian::draw", "Gaussian::map",
    "Gaussian:derive(Clone)", "Gaussian:derive(Debug)", "Gaussian:impl(Clone)",
    "MultivariateGaussian::new", "MultivariateGaussian::mean", "MultivariateGaussian::covariance",
    "MultivariateGaussian::draw", "MultivariateGaussian:derive(Clone)", "MultivariateGaussian:derive(Debug)",
    "MultivariateGaussian:impl(Clone)",
    "MultivariateGaussianTensor::new", "MultivariateGaussianTensor::mean", "MultivariateGaussianTensor::covariance",
    "MultivariateGaussianTensor::draw", "MultivariateGaussianTensor:derive(Clone)",
    "MultivariateGaussianTensor:derive(Debug)", "MultivariateGaussianTensor:impl(Clone)",
    "MultivariateGaussianError:derive(Clone)", "MultivariateGaussianError:derive(Debug)",
    "MultivariateGaussianError:derive(PartialEq)", "MultivariateGaussianError:impl(Display)",
    "MultivariateGaussianError:impl(Error)", "MultivariateGaussianError:impl(Clone)",
];

/// `Gaussian::approximating`: the mean and the (population) variance of the data
fn run_approx<T>(data: &str) -> String
where
    T: Real + ParseElem + std::fmt::Display,
    for<'a> &'a T: RealRef<T>,
{
    let data = parse_elems::<T>(data);
    match catch(|| Gaussian::approximating(data.into_iter())) {
        Ok(g) => format!("mean={} variance={}", g.mean, g.variance),
        Err(k) => panic_str(k),
    }
}

/// one multivariate draw through the matrix or the tensor variant, with a counting source
fn run_mv<T>(toks: &[&str]) -> String
where
    T: Real + ParseElem + std::fmt::Display,
    for<'a> &'a T: RealRef<T>,
{
    let n: usize = toks[2].parse().expect("n");
    let k: usize = toks[3].parse().expect("k");
    let mean = parse_elems::<T>(opt_arg("mean", toks).expect("mean="));
    let cov = parse_elems::<T>(opt_arg("cov", toks).expect("cov="));
    let names = parse_names(opt_arg("names", toks).unwrap_or("samples,features"));
    let via = opt_arg("via", toks).unwrap_or("tensor");
    let mut source = CountingSource::new(parse_elems::<T>(opt_arg("src", toks).expect("src=")));
    let r = catch(|| {
        if via == "matrix" {
            let g = MultivariateGaussian::new(
                Matrix::column(mean.clone()),
                Matrix::from_flat_row_major((n, n), cov.clone()),
            );
            g.draw(&mut source, k).map(|m| {
                let (r, c) = m.size();
                ([("samples", r), ("features", c)], m.row_major_iter().collect::<Vec<T>>())
            })
        } else {
            // the distribution's own dimension names (documented as not used by `draw`)
            let mname = parse_names(opt_arg("mname", toks).unwrap_or("means"));
            let cnames = parse_names(opt_arg("cnames", toks).unwrap_or("u,v"));
            let g = MultivariateGaussianTensor::new(
                Tensor::from([(mname[0], n)], mean.clone()),
                Tensor::from([(cnames[0], n), (cnames[1], n)], cov.clone()),
            )
            .expect("valid distribution");
            g.draw(&mut source, k, names[0], names[1]).map(|t| (t.shape(), t.iter().collect::<Vec<T>>()))
        }
    });
    match r {
        Err(kind) => panic_str(kind),
        Ok(None) => format!("none consumed={}", source.taken),
        Ok(Some((shape, values))) => format!(
            "some shape={} consumed={} values={}",
            show_shape(&shape),
            source.taken,
            show_elems(&values)
        ),
    }
}

/// a uniform source of any element type that counts how many numbers were taken from it
struct CountingSource<T> {
    inner: std::vec::IntoIter<T>,
    taken: usize,
}

impl<T> CountingSource<T> {
    fn new(v: Vec<T>) -> CountingSource<T> {
        CountingSource { inner: v.into_iter(), taken: 0 }
    }
}

impl<T> Iterator for CountingSource<T> {
    type Item = T;
    fn next(&mut self) -> Option<T> {
        let x = self.inner.next();
        if x.is_some() {
            self.taken += 1;
        }
        x
    }
}

pub struct Runner;

impl Runner {
    pub fn new() -> Runner {
        Runner
    }

    pub fn step(&mut self, toks: &[&str]) -> String {
        if toks.len() < 2 || toks[0] != "@" {
            return "bad-op".into();
        }
        match toks[1] {
            "prob" => {
                let p: Vec<Fp> = toks[2..5].iter().map(|t| parse_elems::<Fp>(t).remove(0)).collect();
                let f: Vec<f64> = split_comma(opt_arg("f", toks).expect("f=")).iter().map(|t| t.parse().expect("f64")).collect();
                let via = opt_arg("via", toks).unwrap_or("probability");
                let r = catch(|| {
                    let g = Gaussian::new(f[0], f[1]);
                    #[allow(deprecated)]
                    let got = if via == "map" { g.map(&f[2]) } else { g.probability(&f[2]) };
                    let want = normal_pdf(f[0], f[1], f[2]);
                    let close = got.is_finite() && (got - want).abs() <= 1e-9 * want.abs();
                    let g = Gaussian::new(p[0].clone(), p[1].clone());
                    #[allow(deprecated)]
                    let sym = if via == "map" { g.map(&p[2]) } else { g.probability(&p[2]) };
                    (close, got, want, sym)
                });
                match r {
                    Err(k) => panic_str(k),
                    Ok((true, _, _, sym)) => format!("pdf=ok ## p={}", sym),
                    Ok((false, got, want, sym)) => format!("pdf=bad(got={:e},want={:e}) ## p={}", got, want, sym),
                }
            }
            "draw" => {
                let mean = parse_elems::<Fp>(toks[2]).remove(0);
                let variance = parse_elems::<Fp>(toks[3]).remove(0);
                let k: usize = toks[4].parse().expect("k");
                let mut source = Counting::new(parse_elems::<Fp>(toks[5]));
                let r = catch(|| Gaussian::new(mean, variance).draw(&mut source, k));
                match r {
                    Err(kind) => panic_str(kind),
                    Ok(Some(samples)) => format!(
                        "some n={} consumed={} samples={}",
                        samples.len(),
                        source.taken,
                        show_elems(&samples)
                    ),
                    Ok(None) => format!("none consumed={}", source.taken),
                }
            }
            "drawf" => {
                // f64: the samples must be, bit for bit, the documented function of the consumed
                // numbers (±inf / NaN from ln(0) included), evaluated here with the same operations
                let parse = |t: &str| t.parse::<f64>().expect("f64");
                let (mean, variance) = (parse(toks[2]), parse(toks[3]));
                let k: usize = toks[4].parse().expect("k");
                let src: Vec<f64> = split_comma(toks[5]).iter().map(|t| parse(t)).collect();
                let mut source = CountingSource::new(src.clone());
                let r = catch(|| Gaussian::new(mean, variance).draw(&mut source, k));
                match r {
                    Err(kind) => panic_str(kind),
                    Ok(None) => format!("none consumed={}", source.taken),
                    Ok(Some(samples)) => {
                        let sd = variance.sqrt();
                        let two = 1.0f64 + 1.0;
                        let two_pi = two * std::f64::consts::PI;
                        let want: Vec<f64> = (0..samples.len())
                            .map(|i| {
                                let (u, v) = (src[2 * (i / 2)], src[2 * (i / 2) + 1]);
                                let radius = (-two * u.ln()).sqrt();
                                let z = if i % 2 == 0 { radius * (two_pi * v).cos() } else { radius * (two_pi * v).sin() };
                                z * sd + mean
                            })
                            .collect();
                        let same = samples.iter().zip(want.iter()).all(|(a, b)| a.to_bits() == b.to_bits());
                        format!(
                            "some n={} consumed={} samples={}",
                            samples.len(),
                            source.taken,
                            if same { "ok".to_string() } else { format!("bad(got={:?},want={:?})", samples, want) }
                        )
                    }
                }
            }
            "mv" => {
                if opt_arg("ty", toks) == Some("rat") {
                    run_mv::<Rat>(toks)
                } else {
                    run_mv::<Fp>(toks)
                }
            }
            "new" => {
                let nums: Vec<usize> = toks[3..].iter().map(|t| t.parse().expect("usize")).collect();
                // distinct element values, so that the accessor / payload comparisons mean something
                let ids = |from: u64, n: usize| (0..n as u64).map(|i| Fp(from + i)).collect::<Vec<Fp>>();
                if toks[2] == "matrix" {
                    let r = catch(|| {
                        let mean = Matrix::from_flat_row_major((nums[0], nums[1]), ids(1, nums[0] * nums[1]));
                        let cov = Matrix::from_flat_row_major((nums[2], nums[3]), ids(100, nums[2] * nums[3]));
                        let g = MultivariateGaussian::new(mean.clone(), cov.clone());
                        *g.mean() == mean && *g.covariance() == cov
                    });
                    match r {
                        Ok(same) => format!("ok ## accessors={}", if same { "ok" } else { "bad" }),
                        Err(k) => panic_str(k),
                    }
                } else {
                    let r = catch(|| {
                        let mean = Tensor::from([("m", nums[0])], ids(1, nums[0]));
                        let cov = Tensor::from([("a", nums[1]), ("b", nums[2])], ids(100, nums[1] * nums[2]));
                        match MultivariateGaussianTensor::new(mean.clone(), cov.clone()) {
                            Ok(g) => Ok(*g.mean() == mean && *g.covariance() == cov),
                            Err(e) => {
                                let shown = format!("{}", e);
                                // every error is a std::error::Error
                                let _: &dyn std::error::Error = &*e;
                                Err(match *e {
                                    MultivariateGaussianError::NotCovarianceMatrix { mean: m, covariance: c } => (
                                        "NotCovarianceMatrix",
                                        m == mean && c == cov,
                                        shown == format!("Covariance matrix is not square: {:?}", cov),
                                    ),
                                    MultivariateGaussianError::MeanVectorWrongLength { mean: m, covariance: c } => (
                                        "MeanVectorWrongLength",
                                        m == mean && c == cov,
                                        shown
                                            == format!(
                                                "Mean vector has a different length {:?} to the covariance matrix size: {:?}",
                                                mean.shape(),
                                                cov.shape()
                                            ),
                                    ),
                                    _ => ("other", false, false),
                                })
                            }
                        }
                    });
                    let okb = |b: bool| if b { "ok" } else { "bad" };
                    match r {
                        Ok(Ok(same)) => format!("ok ## accessors={}", okb(same)),
                        Ok(Err((e, payload, display))) => {
                            format!("err({}) ## payload={} display={}", e, okb(payload), okb(display))
                        }
                        Err(k) => panic_str(k),
                    }
                }
            }
            "api" => run_api(toks),
            "approx" => {
                if toks[2] == "rat" {
                    run_approx::<Rat>(toks[3])
                } else {
                    run_approx::<Fp>(toks[3])
                }
            }
            _ => "bad-op".into(),
        }
    }
}

// ---------------------------------------------------------------------------------------------
// generation
// ---------------------------------------------------------------------------------------------

fn rand_fp(g: &mut Gen) -> Fp {
    Fp::new(g.rng.next())
}

fn fps(g: &mut Gen, n: usize) -> Vec<Fp> {
    (0..n).map(|_| rand_fp(g)).collect()
}

/// a symmetric covariance over Fp on which Cholesky succeeds (`want_pd`) or fails, found by
/// rejection with the generator's steering reference
fn covariance(g: &mut Gen, n: usize, want_pd: bool) -> Vec<Fp> {
    loop {
        let mut a = fps(g, n * n);
        symmetrise(n, &mut a);
        let (fail, _) = steer_chol::<Fp>(n, &a, None);
        if fail.is_none() == want_pd {
            return a;
        }
    }
}

/// every way the five name slots (mean, covariance 0, covariance 1, samples argument, features
/// argument) can be equal / unequal to one another, as block indices, with the two covariance
/// names distinct
fn equality_patterns() -> Vec<[usize; 5]> {
    fn go(slot: usize, blocks: usize, cur: &mut [usize; 5], out: &mut Vec<[usize; 5]>) {
        if slot == 5 {
            if cur[1] != cur[2] {
                out.push(*cur);
            }
            return;
        }
        for b in 0..=blocks {
            cur[slot] = b;
            go(slot + 1, if b == blocks { blocks + 1 } else { blocks }, cur, out);
        }
    }
    let mut out = vec![];
    go(0, 0, &mut [0; 5], &mut out);
    out
}

/// L·Lᵀ over the rationals
fn rat_llt(n: usize, l: &[Rat]) -> Vec<Rat> {
    let mut a = vec![Rat::int(0); n * n];
    for i in 0..n {
        for j in 0..n {
            let mut s = Rat::int(0);
            for k in 0..n {
                s = s + l[i * n + k].clone() * l[j * n + k].clone();
            }
            a[i * n + j] = s;
        }
    }
    a
}

pub fn gen(g: &mut Gen) {
    // ---- API surface of the distribution types -------------------------------------------------------
    for kind in ["gaussian", "mvmatrix", "mvtensor", "error"] {
        g.op(format!("@ api {}", kind));
        g.count("api.type-surface");
    }
    crate::c08::scan_public_items(g, "src/distributions.rs", &C17_TYPES, &C17_DRIVEN);

    // ---- density -------------------------------------------------------------------------------
    let means = [-3.0, -1.5, -0.25, 0.0, 0.5, 2.0, 10.0];
    let variances = [0.01, 0.25, 0.5, 1.0, 2.0, 4.0, 9.0, 100.0];
    let offsets = [-3.5, -2.0, -1.0, -0.3, 0.0, 0.7, 1.0, 2.0, 4.0];
    for (mi, mean) in means.iter().enumerate() {
        for variance in variances {
            for t in offsets {
                if !g.thorough && (mi % 2 == 1) && t != 1.0 {
                    continue;
                }
                let x = mean + t * f64::sqrt(variance);
                let via = if g.rng.chance(1, 5) { "map" } else { "probability" };
                let (p0, p1, p2) = (rand_fp(g), rand_fp(g), rand_fp(g));
                g.op(format!("@ prob {} {} {} f={},{},{} via={}", p0, p1, p2, mean, variance, x, via));
                g.count(if variance == 1.0 { "prob.variance=1" } else { "prob.variance!=1" });
            }
        }
    }
    // the witness of DESIGN §8 #10
    g.op("@ prob 0 4 2 f=0,4,2 via=probability".to_string());
    g.count("prob.variance!=1");

    // ---- univariate draws: every k, every source length 0..k+2 --------------------------------------
    let max_k = if g.thorough { 12 } else { 7 };
    for k in 0..=max_k {
        for len in 0..=(k + 2) {
            for _ in 0..(if g.thorough { 8 } else { 3 }) {
                let src = fps(g, len);
                let (p0, p1) = (rand_fp(g), rand_fp(g));
                g.op(format!("@ draw {} {} {} {}", p0, p1, k, show_elems(&src)));
                g.count(&format!("draw.k={}", k));
                g.count(if len >= 2 * ((k + 1) / 2) { "draw.source-sufficient" } else { "draw.source-runs-dry" });
            }
        }
    }
    // unit normal and small constants
    for k in [1usize, 2, 3] {
        let src = fps(g, k + 1);
        g.op(format!("@ draw 0 1 {} {}", k, show_elems(&src)));
        g.count("draw.standard-normal");
    }

    // ---- multivariate draws ---------------------------------------------------------------------
    let max_n = if g.thorough { 5 } else { 4 };
    let name_pairs = [["samples", "features"], ["features", "samples"], ["a", "b"], ["row", "column"]];
    for n in 1..=max_n {
        let need = 2 * ((n + 1) / 2);
        for k in 0..=3usize {
            for rep in 0..(if g.thorough { 10 } else { 4 }) {
                let mean = fps(g, n);
                let cov = covariance(g, n, true);
                let total = k * need;
                // exact length, one short, one long, a random shorter one
                let mut lens = vec![total, total + 1];
                if total > 0 {
                    lens.push(total - 1);
                    lens.push(g.rng.below(total));
                }
                if k == 0 && rep > 0 {
                    continue;
                }
                for len in lens {
                    let src = fps(g, len);
                    let names = *g.rng.pick(&name_pairs);
                    let line = |names: [&str; 2], via: &str| {
                        format!(
                            "@ mv {} {} mean={} cov={} src={} names={},{} via={}",
                            n, k, show_elems(&mean), show_elems(&cov), show_elems(&src), names[0], names[1], via
                        )
                    };
                    // the matrix variant has fixed names; the tensor variant is run with the same
                    // names (agreement) and with another choice
                    g.op(line(["samples", "features"], "matrix"));
                    g.op(line(["samples", "features"], "tensor"));
                    g.op(line(names, "tensor"));
                    g.count(&format!("mv.N={}", n));
                    g.count(&format!("mv.samples={}", k));
                    g.count(if len >= total { "mv.source-sufficient" } else { "mv.source-runs-dry" });
                }
            }
        }
        // covariance that is not positive definite; equal dimension names
        for _ in 0..3 {
            let mean = fps(g, n);
            let cov = covariance(g, n, false);
            let src = fps(g, 2 * need);
            for via in ["matrix", "tensor"] {
                g.op(format!(
                    "@ mv {} 2 mean={} cov={} src={} names=samples,features via={}",
                    n, show_elems(&mean), show_elems(&cov), show_elems(&src), via
                ));
            }
            g.count("mv.not-positive-definite");
            let cov = covariance(g, n, true);
            g.op(format!(
                "@ mv {} 2 mean={} cov={} src={} names=x,x via=tensor",
                n, show_elems(&mean), show_elems(&cov), show_elems(&src)
            ));
            g.count("mv.equal-names");
        }
    }

    // ---- singular covariances: an exactly-zero pivot at every pivot position ------------------------
    // (positive semidefinite but not positive definite: duplicated / perfectly correlated features,
    // a zero-variance feature, the 1×1 covariance [0]); the draw must be absent, for the matrix
    // variant and for the tensor variant with both orders of the dimension names.
    let name_orders: [(&str, [&str; 2]); 3] = [
        ("matrix", ["samples", "features"]),
        ("tensor", ["samples", "features"]),
        ("tensor", ["features", "samples"]),
    ];
    for n in 1..=5usize {
        let need = 2 * ((n + 1) / 2);
        for at in 0..n {
            // over Fp: steer the pivot `at` of a random symmetric matrix to exactly zero (the pivots
            // before it positive, so that the run reaches it)
            for _ in 0..(if g.thorough { 4 } else { 2 }) {
                let cov = loop {
                    let mut a = fps(g, n * n);
                    symmetrise(n, &mut a);
                    let (_, s) = steer_chol::<Fp>(n, &a, Some(at));
                    a[at * n + at] = s;
                    if steer_chol::<Fp>(n, &a, None).0 == Some(at) {
                        break a;
                    }
                };
                let mean = fps(g, n);
                let k = g.rng.range(1, 3);
                let src = fps(g, k * need + 1);
                for (via, names) in name_orders {
                    g.op(format!(
                        "@ mv {} {} mean={} cov={} src={} names={},{} via={}",
                        n, k, show_elems(&mean), show_elems(&cov), show_elems(&src), names[0], names[1], via
                    ));
                }
                g.count(&format!("mv.fp.zero-pivot-at={}", at));
            }
            // over Rat: L·Lᵀ for a lower-triangular rational L whose diagonal entry `at` is zero and
            // whose other diagonal entries are positive: genuinely positive semidefinite and singular,
            // every earlier pivot an exact square, pivot `at` exactly zero
            for _ in 0..(if g.thorough { 4 } else { 2 }) {
                let mut l = vec![Rat::int(0); n * n];
                for i in 0..n {
                    for j in 0..i {
                        let d = *g.rng.pick(&[1i128, 1, 2, 3]);
                        l[i * n + j] = Rat::new(g.rng.below(7) as i128 - 3, d);
                    }
                    if i != at {
                        let d = *g.rng.pick(&[1i128, 1, 2]);
                        l[i * n + i] = Rat::new(g.rng.below(4) as i128 + 1, d);
                    }
                }
                let cov = rat_llt(n, &l);
                let mean: Vec<Rat> = (0..n).map(|_| Rat::int(g.rng.below(9) as i64 - 4)).collect();
                let k = g.rng.range(1, 3);
                let src: Vec<Rat> = (0..k * need + 1).map(|_| Rat::new(g.rng.below(9) as i128 + 1, 10)).collect();
                for (via, names) in name_orders {
                    g.op(format!(
                        "@ mv {} {} mean={} cov={} src={} names={},{} via={} ty=rat",
                        n, k, show_elems(&mean), show_elems(&cov), show_elems(&src), names[0], names[1], via
                    ));
                }
                g.count(&format!("mv.rat.singular-psd.zero-pivot-at={}", at));
            }
        }
        // named singular covariances over Rat: all-ones (perfectly correlated features), a duplicated
        // feature, a zero-variance feature, and indefinite / negative ones
        let mut named: Vec<(&str, Vec<Rat>)> = vec![];
        if n >= 2 {
            named.push(("all-ones", vec![Rat::int(1); n * n]));
        }
        let mut zero_var = vec![Rat::int(0); n * n];
        for i in 0..n {
            zero_var[i * n + i] = if i == n - 1 { Rat::int(0) } else { Rat::int(4) };
        }
        named.push(("zero-variance-feature", zero_var));
        if n >= 2 {
            // features 0 and n-1 identical: covariance of (x0, …, x0)
            let mut l = vec![Rat::int(0); n * n];
            for i in 0..n - 1 {
                l[i * n + i] = Rat::int(1 + i as i64);
            }
            l[(n - 1) * n] = Rat::int(1);
            named.push(("duplicated-feature", rat_llt(n, &l)));
            let mut neg = vec![Rat::int(0); n * n];
            for i in 0..n {
                neg[i * n + i] = if i == n - 1 { Rat::int(-1) } else { Rat::int(9) };
            }
            named.push(("negative-variance", neg));
        }
        for (label, cov) in named {
            let mean: Vec<Rat> = (0..n).map(|i| Rat::int(i as i64)).collect();
            let src: Vec<Rat> = (0..2 * need).map(|i| Rat::new(i as i128 + 1, 20)).collect();
            for (via, names) in name_orders {
                g.op(format!(
                    "@ mv {} 2 mean={} cov={} src={} names={},{} via={} ty=rat",
                    n, show_elems(&mean), show_elems(&cov), show_elems(&src), names[0], names[1], via
                ));
            }
            g.count(&format!("mv.rat.{}", label));
        }
    }

    // ---- Gaussian::approximating: mean and population variance of the data -------------------------
    for len in 0..=(if g.thorough { 9 } else { 6 }) {
        for _ in 0..(if g.thorough { 6 } else { 3 }) {
            let data = fps(g, len);
            g.op(format!("@ approx fp {}", show_elems(&data)));
            g.count(&format!("approx.fp.len={}", len));
            let data: Vec<Rat> =
                (0..len).map(|_| Rat::new(g.rng.below(21) as i128 - 10, *g.rng.pick(&[1i128, 1, 2, 3, 5]))).collect();
            g.op(format!("@ approx rat {}", show_elems(&data)));
            g.count(&format!("approx.rat.len={}", len));
        }
    }

    // ---- the top of the size ranges, in every tier ------------------------------------------------
    for k in [9usize, 17, 33] {
        let need = 2 * ((k + 1) / 2);
        for len in [need, need - 1, need + 1] {
            let src = fps(g, len);
            let (p0, p1) = (rand_fp(g), rand_fp(g));
            g.op(format!("@ draw {} {} {} {}", p0, p1, k, show_elems(&src)));
            g.count(&format!("top-of-range.draw.k={}", k));
        }
    }
    for samples in [9usize, 13, 17] {
        let n = 5;
        let need = 2 * ((n + 1) / 2);
        let mean = fps(g, n);
        let cov = covariance(g, n, true);
        for len in [samples * need, samples * need - 1] {
            let src = fps(g, len);
            for (via, names) in [("matrix", ["samples", "features"]), ("tensor", ["samples", "features"]), ("tensor", ["b", "a"])] {
                g.op(format!(
                    "@ mv {} {} mean={} cov={} src={} names={},{} via={}",
                    n, samples, show_elems(&mean), show_elems(&cov), show_elems(&src), names[0], names[1], via
                ));
            }
            g.count(&format!("top-of-range.mv.N=5.samples={}", samples));
        }
    }

    // ---- special values in the source: exact zeros, ones, duplicates, all-equal ----------------------
    // (a zero in a `u` position makes ln(0): it must still be consumed as the pair's first number)
    let special_k = if g.thorough { 9 } else { 7 };
    for k in 0..=special_k {
        let need = 2 * ((k + 1) / 2);
        for len in 0..=(k + 2) {
            // an exact zero at every position of the source
            for at in 0..len {
                let mut src = fps(g, len);
                src[at] = Fp(0);
                let (p0, p1) = (rand_fp(g), rand_fp(g));
                g.op(format!("@ draw {} {} {} {}", p0, p1, k, show_elems(&src)));
                g.count(if at % 2 == 0 { "draw.fp.zero-in-u-position" } else { "draw.fp.zero-in-v-position" });
            }
            if len > 0 {
                let (p0, p1) = (rand_fp(g), rand_fp(g));
                let x = rand_fp(g);
                for (label, value) in [("all-zero", Fp(0)), ("all-one", Fp(1)), ("all-equal", x)] {
                    g.op(format!("@ draw {} {} {} {}", p0, p1, k, show_elems(&vec![value.clone(); len])));
                    g.count(&format!("draw.fp.{}", label));
                }
            }
        }
        // f64, sources of exactly sufficient length and one more / one less
        for len in [need, need + 1, need.saturating_sub(1)] {
            let values = [0.0f64, -0.0, 1.0, 0.375, 0.5, 0.25, 0.75, 0.9990234375];
            for at in 0..len.max(1) {
                for special in [0.0f64, -0.0, 1.0] {
                    let mut src: Vec<f64> = (0..len).map(|_| values[3 + g.rng.below(5)]).collect();
                    if at < len {
                        src[at] = special;
                    }
                    let (mean, variance) = (*g.rng.pick(&[0.0, -1.5, 2.0]), *g.rng.pick(&[1.0, 4.0, 0.25]));
                    let shown = if src.is_empty() { "-".to_string() } else { src.iter().map(|x| format!("{:?}", x)).collect::<Vec<_>>().join(",") };
                    g.op(format!("@ drawf {:?} {:?} {} {}", mean, variance, k, shown));
                    g.count(&format!("draw.f64.special={:?}", special));
                }
            }
            if len > 0 {
                for value in [0.0f64, 1.0, 0.375] {
                    let shown = vec![format!("{:?}", value); len].join(",");
                    g.op(format!("@ drawf 0.0 1.0 {} {}", k, shown));
                    g.count("draw.f64.all-equal");
                }
            }
        }
    }
    // multivariate draws whose source contains exact zeros (every position of the first row and
    // some later ones), of exactly sufficient length
    for n in 1..=3usize {
        let need = 2 * ((n + 1) / 2);
        for k in 1..=2usize {
            let mean = fps(g, n);
            let cov = covariance(g, n, true);
            for at in 0..(k * need) {
                let mut src = fps(g, k * need);
                src[at] = Fp(0);
                for via in ["matrix", "tensor"] {
                    g.op(format!(
                        "@ mv {} {} mean={} cov={} src={} names=samples,features via={}",
                        n, k, show_elems(&mean), show_elems(&cov), show_elems(&src), via
                    ));
                }
                g.count("mv.fp.zero-in-source");
            }
            let src = vec![Fp(0); k * need];
            g.op(format!(
                "@ mv {} {} mean={} cov={} src={} names=samples,features via=tensor",
                n, k, show_elems(&mean), show_elems(&cov), show_elems(&src)
            ));
            g.count("mv.fp.all-zero-source");
        }
    }

    // ---- adversarial dimension names -------------------------------------------------------------
    // the mean's name, the covariance's two names and the two arguments of `draw`, in every pattern
    // of being equal / unequal to one another (the covariance's names are distinct by construction
    // of a tensor); only equal draw arguments are rejected, all other patterns give the samples
    let patterns = equality_patterns();
    for pattern in &patterns {
        for _ in 0..(if g.thorough { 4 } else { 2 }) {
            let pool = adversarial_names(&mut g.rng, 5);
            let name = |slot: usize| pool[pattern[slot]];
            let n = g.rng.range(1, 2);
            let need = 2 * ((n + 1) / 2);
            let mean = fps(g, n);
            let cov = covariance(g, n, true);
            let src = fps(g, need);
            g.op(format!(
                "@ mv {} 1 mean={} cov={} src={} names={},{} via=tensor mname={} cnames={},{}",
                n, show_elems(&mean), show_elems(&cov), show_elems(&src),
                name(3), name(4), name(0), name(1), name(2)
            ));
            g.count(if pattern[3] == pattern[4] { "mv.names.equal-draw-arguments" } else { "mv.names.adversarial-valid" });
            if pattern[0] == pattern[4] {
                g.count("mv.names.mean-named-like-features-argument");
            }
        }
    }
    // the internal names themselves
    for (mname, cnames, names) in [
        ("features", ["u", "v"], ["samples", "features"]),
        ("samples", ["samples", "features"], ["samples", "features"]),
        ("x", ["y", "x"], ["y", "x"]),
        ("row", ["row", "column"], ["column", "row"]),
        ("_empty_", ["_empty_", "r"], ["r", "_empty_"]),
    ] {
        let mean = fps(g, 2);
        let cov = covariance(g, 2, true);
        let src = fps(g, 4);
        g.op(format!(
            "@ mv 2 2 mean={} cov={} src={} names={},{} via=tensor mname={} cnames={},{}",
            show_elems(&mean), show_elems(&cov), show_elems(&src), names[0], names[1], mname, cnames[0], cnames[1]
        ));
        g.count("mv.names.internal");
    }

    // ---- constructor validation -------------------------------------------------------------------
    for mr in 1..=3 {
        for mc in 1..=2 {
            for cr in 1..=3 {
                for cc in 1..=3 {
                    g.op(format!("@ new matrix {} {} {} {}", mr, mc, cr, cc));
                    g.count("new.matrix");
                    if mc == 1 {
                        g.op(format!("@ new tensor {} {} {}", mr, cr, cc));
                        g.count("new.tensor");
                    }
                }
            }
        }
    }
}
