//! C19 — "trace/record wrappers inherit these": every owned/borrowed operand form of every
//! operator of `Trace<T>` and `Record<'a, T>` must give the same result, and (for the exact
//! element types) the model's single answer.
//!
//!   @ trop <elem> <op> <an> <ad> <bn> <bd>      Trace op Trace        (4 forms)
//!   @ trsc <elem> <op> <an> <ad> <r>            Trace op T            (4 forms)
//!   @ trneg <elem> <an> <ad>                    -Trace                (2 forms)
//!   @ trpow <elem> <an> <ad> <bn> <bd>          Trace^Trace, Trace^T, T^Trace (12 forms, Real types)
//!   @ recop <elem> <vv|vc|cv|cc> <op> <a> <b>   Record op Record      (4 forms, fresh tape each)
//!   @ recsc <elem> <v|c> <op> <a> <r>           Record op T           (4 forms)
//!   @ recneg <elem> <v|c> <a>                   -Record               (2 forms)
//!   @ recsw <elem> <v|c> <sub|div> <a> <lhs>    lhs - Record, lhs / Record through SwappedOperations (4 impls)
//!   @ recpow <elem> <vv|vc|cv|cc> <a> <b>       Record^Record, Record^T, T^Record (12 forms)
//!   @ freal <elem> <fn> <a> <b>                 sqrt exp ln sin cos (by value / by reference), pow (4 forms), pi
//!                                               on the primitive float itself (src/numeric.rs *_float! macros)
//!   @ trreal <elem> <fn> <an> <ad>              the same functions on Trace<elem>
//!   @ recreal <elem> <v|c> <fn> <a>             … and on Record<elem>
//!
//! <elem>: i64 / i32 / i8 (overflow checks on; small operands and the boundary values MIN, MIN+1, -1, 0, 1,
//! MAX-1, MAX), wrapping_u8, Fp — compared with the model —
//! and f64 / f32, whose forms are compared with each other only (bit patterns; answer `agree`).
//! The answer of a Trace line is `num=<v> der=<v>`; of a Record line `num=<v> hist=<some|none>
//! idx=<index> [dx=<v>] [dy=<v>]` (derivatives of the result with respect to the variable operands).

use crate::exact::{Fp, P};
use crate::util::*;
use easy_ml::differentiation::record_operations::SwappedOperations;
use easy_ml::differentiation::{Primitive, Record, Trace, WengertList};
use easy_ml::numeric::extra::{Cos, Exp, Ln, Pi, Pow, Real, RealRef, Sin, Sqrt};
use easy_ml::numeric::{Numeric, NumericRef};
use std::num::Wrapping;

pub trait WElem: Numeric + Primitive + Clone + 'static {
    fn parse(s: &str) -> Option<Self>;
    fn show(&self) -> String;
    /// the standard library's π for the primitive floats (the documented value of `Pi::pi`)
    fn std_pi() -> Option<Self> {
        None
    }
}
impl WElem for i64 {
    fn parse(s: &str) -> Option<i64> { s.parse().ok() }
    fn show(&self) -> String { self.to_string() }
}
impl WElem for i32 {
    fn parse(s: &str) -> Option<i32> { s.parse().ok() }
    fn show(&self) -> String { self.to_string() }
}
impl WElem for i8 {
    fn parse(s: &str) -> Option<i8> { s.parse().ok() }
    fn show(&self) -> String { self.to_string() }
}
impl WElem for Wrapping<u8> {
    fn parse(s: &str) -> Option<Wrapping<u8>> { s.parse::<u8>().ok().map(Wrapping) }
    fn show(&self) -> String { self.0.to_string() }
}
impl WElem for Fp {
    fn parse(s: &str) -> Option<Fp> { s.parse::<u64>().ok().map(Fp::new) }
    fn show(&self) -> String { self.0.to_string() }
}
impl WElem for f32 {
    fn parse(s: &str) -> Option<f32> { s.parse::<u32>().ok().map(f32::from_bits) }
    fn show(&self) -> String { format!("bits:{}", self.to_bits()) }
    fn std_pi() -> Option<f32> { Some(std::f32::consts::PI) }
}
impl WElem for f64 {
    fn parse(s: &str) -> Option<f64> { s.parse::<u64>().ok().map(f64::from_bits) }
    fn show(&self) -> String { format!("bits:{}", self.to_bits()) }
    fn std_pi() -> Option<f64> { Some(std::f64::consts::PI) }
}

fn merge(forms: Vec<(&'static str, String)>) -> String {
    if forms.iter().all(|(_, s)| *s == forms[0].1) {
        forms[0].1.clone()
    } else {
        format!("forms-differ({})", forms.iter().map(|(n, s)| format!("{}={}", n, s)).collect::<Vec<_>>().join(","))
    }
}

fn show_trace<E: WElem>(r: Result<Trace<E>, PanicKind>) -> String {
    match r {
        Ok(t) => format!("num={} der={}", t.number.show(), t.derivative.show()),
        Err(k) => panic_str(k),
    }
}

/// the four operand forms of a binary operator on two values in scope
macro_rules! four_forms {
    ($show:expr, $a:ident, $b:ident, $op:tt) => {
        vec![
            ("vv", $show(catch(|| $a.clone() $op $b.clone()))),
            ("vr", $show(catch(|| $a.clone() $op &$b))),
            ("rv", $show(catch(|| &$a $op $b.clone()))),
            ("rr", $show(catch(|| &$a $op &$b))),
        ]
    };
}

macro_rules! four_forms_pow {
    ($show:expr, $a:ident, $b:ident, $tag:expr) => {
        vec![
            (concat!($tag, "vv"), $show(catch(|| $a.clone().pow($b.clone())))),
            (concat!($tag, "vr"), $show(catch(|| $a.clone().pow(&$b)))),
            (concat!($tag, "rv"), $show(catch(|| (&$a).pow($b.clone())))),
            (concat!($tag, "rr"), $show(catch(|| (&$a).pow(&$b)))),
        ]
    };
}

fn trace_bin<E: WElem>(op: &str, a: Trace<E>, b: Trace<E>) -> Option<String>
where
    for<'x> &'x E: NumericRef<E>,
{
    Some(merge(match op {
        "add" => four_forms!(show_trace, a, b, +),
        "sub" => four_forms!(show_trace, a, b, -),
        "mul" => four_forms!(show_trace, a, b, *),
        "div" => four_forms!(show_trace, a, b, /),
        _ => return None,
    }))
}

fn trace_scalar<E: WElem>(op: &str, a: Trace<E>, r: E) -> Option<String>
where
    for<'x> &'x E: NumericRef<E>,
{
    Some(merge(match op {
        "add" => four_forms!(show_trace, a, r, +),
        "sub" => four_forms!(show_trace, a, r, -),
        "mul" => four_forms!(show_trace, a, r, *),
        "div" => four_forms!(show_trace, a, r, /),
        _ => return None,
    }))
}

fn trace_neg<E: WElem>(a: Trace<E>) -> String
where
    for<'x> &'x E: NumericRef<E>,
{
    merge(vec![("v", show_trace(catch(|| -a.clone()))), ("r", show_trace(catch(|| -&a)))])
}

/// Trace^Trace, Trace^T and T^Trace: each family's four forms must agree (the three families
/// compute different functions, so they are merged separately)
fn trace_pow<E: WElem + Real>(a: Trace<E>, b: Trace<E>) -> String
where
    for<'x> &'x E: RealRef<E>,
{
    let (r, l) = (b.number.clone(), a.number.clone());
    let parts = vec![
        merge(four_forms_pow!(show_trace, a, b, "tt-")),
        merge(four_forms_pow!(show_trace, a, r, "ts-")),
        merge(four_forms_pow!(show_trace, l, b, "st-")),
    ];
    if parts.iter().any(|s| s.starts_with("forms-differ")) { parts.join(" ") } else { "agree".into() }
}

// ---------------------------------------------------------------------------------------------
// Record: every form on a fresh tape
// ---------------------------------------------------------------------------------------------

fn describe<E: WElem>(z: &Record<E>, x: Option<&Record<E>>, y: Option<&Record<E>>) -> String
where
    for<'x> &'x E: NumericRef<E>,
{
    let mut s = format!(
        "num={} hist={} idx={}",
        z.number.show(),
        if z.history().is_some() { "some" } else { "none" },
        z.index
    );
    if let Some(d) = z.try_derivatives() {
        if let Some(x) = x {
            s += &format!(" dx={}", d[x].show());
        }
        if let Some(y) = y {
            s += &format!(" dy={}", d[y].show());
        }
    }
    s
}

fn mk<'a, E: WElem>(var: bool, v: &E, list: &'a WengertList<E>) -> Record<'a, E> {
    if var { Record::variable(v.clone(), list) } else { Record::constant(v.clone()) }
}

macro_rules! record_forms {
    ($va:expr, $vb:expr, $a:expr, $b:expr, |$x:ident, $y:ident| [$vv:expr, $vr:expr, $rv:expr, $rr:expr]) => {{
        let mut out: Vec<(&'static str, String)> = vec![];
        let names = ["vv", "vr", "rv", "rr"];
        for form in 0..4 {
            let r = catch(|| {
                let list = WengertList::new();
                let $x: Record<E> = mk::<E>($va, $a, &list);
                let $y: Record<E> = mk::<E>($vb, $b, &list);
                let (xk, yk) = ($x.clone(), $y.clone());
                let z: Record<E> = match form {
                    0 => $vv,
                    1 => $vr,
                    2 => $rv,
                    _ => $rr,
                };
                describe::<E>(&z, if $va { Some(&xk) } else { None }, if $vb { Some(&yk) } else { None })
            });
            out.push((names[form], match r { Ok(s) => s, Err(k) => panic_str(k) }));
        }
        out
    }};
}

fn record_bin<E: WElem>(op: &str, va: bool, vb: bool, a: &E, b: &E) -> Option<String>
where
    for<'x> &'x E: NumericRef<E>,
{
    Some(merge(match op {
        "add" => record_forms!(va, vb, a, b, |x, y| [x + y, x + &y, &x + y, &x + &y]),
        "sub" => record_forms!(va, vb, a, b, |x, y| [x - y, x - &y, &x - y, &x - &y]),
        "mul" => record_forms!(va, vb, a, b, |x, y| [x * y, x * &y, &x * y, &x * &y]),
        "div" => record_forms!(va, vb, a, b, |x, y| [x / y, x / &y, &x / y, &x / &y]),
        _ => return None,
    }))
}

macro_rules! record_scalar_forms {
    ($va:expr, $a:expr, $r:expr, |$x:ident, $s:ident| [$vv:expr, $vr:expr, $rv:expr, $rr:expr]) => {{
        let mut out: Vec<(&'static str, String)> = vec![];
        let names = ["vv", "vr", "rv", "rr"];
        for form in 0..4 {
            let r = catch(|| {
                let list = WengertList::new();
                let $x: Record<E> = mk::<E>($va, $a, &list);
                let $s: E = $r.clone();
                let xk = $x.clone();
                let z: Record<E> = match form {
                    0 => $vv,
                    1 => $vr,
                    2 => $rv,
                    _ => $rr,
                };
                describe::<E>(&z, if $va { Some(&xk) } else { None }, None)
            });
            out.push((names[form], match r { Ok(s) => s, Err(k) => panic_str(k) }));
        }
        out
    }};
}

fn record_scalar<E: WElem>(op: &str, va: bool, a: &E, r: &E) -> Option<String>
where
    for<'x> &'x E: NumericRef<E>,
{
    Some(merge(match op {
        "add" => record_scalar_forms!(va, a, r, |x, s| [x + s, x + &s, &x + s, &x + &s]),
        "sub" => record_scalar_forms!(va, a, r, |x, s| [x - s, x - &s, &x - s, &x - &s]),
        "mul" => record_scalar_forms!(va, a, r, |x, s| [x * s, x * &s, &x * s, &x * &s]),
        "div" => record_scalar_forms!(va, a, r, |x, s| [x / s, x / &s, &x / s, &x / &s]),
        _ => return None,
    }))
}

/// `number ∘ record` through `SwappedOperations` (`lhs - record`, `lhs / record`), its four impls
fn record_swapped<E: WElem>(op: &str, va: bool, a: &E, lhs: &E) -> Option<String>
where
    for<'x> &'x E: NumericRef<E>,
{
    Some(merge(match op {
        "sub" => record_scalar_forms!(va, a, lhs, |x, s| [x.sub_swapped(s), x.sub_swapped(&s), (&x).sub_swapped(s), (&x).sub_swapped(&s)]),
        "div" => record_scalar_forms!(va, a, lhs, |x, s| [x.div_swapped(s), x.div_swapped(&s), (&x).div_swapped(s), (&x).div_swapped(&s)]),
        _ => return None,
    }))
}

fn record_neg<E: WElem>(va: bool, a: &E) -> String
where
    for<'x> &'x E: NumericRef<E>,
{
    let mut out = vec![];
    for (name, by_ref) in [("v", false), ("r", true)] {
        let r = catch(|| {
            let list = WengertList::new();
            let x: Record<E> = mk::<E>(va, a, &list);
            let xk = x.clone();
            let z: Record<E> = if by_ref { -&x } else { -x };
            describe::<E>(&z, if va { Some(&xk) } else { None }, None)
        });
        out.push((name, match r { Ok(s) => s, Err(k) => panic_str(k) }));
    }
    merge(out)
}

fn record_pow<E: WElem + Real>(va: bool, vb: bool, a: &E, b: &E) -> String
where
    for<'x> &'x E: RealRef<E>,
{
    let tt = merge(record_forms!(va, vb, a, b, |x, y| [x.pow(y), x.pow(&y), (&x).pow(y), (&x).pow(&y)]));
    let ts = merge(record_scalar_forms!(va, a, b, |x, s| [x.pow(s), x.pow(&s), (&x).pow(s), (&x).pow(&s)]));
    let st = merge(record_scalar_forms!(vb, b, a, |y, s| [s.pow(y), s.pow(&y), (&s).pow(y), (&s).pow(&y)]));
    let parts = vec![tt, ts, st];
    if parts.iter().any(|s| s.starts_with("forms-differ")) { parts.join(" ") } else { "agree".into() }
}


// ---------------------------------------------------------------------------------------------
// Real functions: by-value and by-reference forms (forms compared with each other only)
// ---------------------------------------------------------------------------------------------

macro_rules! two_forms_fn {
    ($show:expr, $x:ident, $f:ident) => {
        vec![("v", $show(catch(|| $x.clone().$f()))), ("r", $show(catch(|| (&$x).$f())))]
    };
}

fn show_elem<E: WElem>(r: Result<E, PanicKind>) -> String {
    match r {
        Ok(v) => v.show(),
        Err(k) => panic_str(k),
    }
}

/// `sqrt exp ln sin cos` (2 forms), `pow` (4 forms), `pi` on the element type itself
/// (src/numeric.rs: sqrt_float!, exp_float!, pow_float!, ln_float!, sin_float!, cos_float!, Pi)
fn real_prim<E: WElem + Real + PartialEq>(f: &str, a: E, b: E) -> Option<String>
where
    for<'x> &'x E: RealRef<E>,
{
    Some(merge(match f {
        "sqrt" => two_forms_fn!(show_elem, a, sqrt),
        "exp" => two_forms_fn!(show_elem, a, exp),
        "ln" => two_forms_fn!(show_elem, a, ln),
        "sin" => two_forms_fn!(show_elem, a, sin),
        "cos" => two_forms_fn!(show_elem, a, cos),
        "pow" => four_forms_pow!(show_elem, a, b, ""),
        // no operand forms: executed twice, must be reproducible
        "pi" => {
            let mut v = vec![("pi", E::pi().show()), ("again", E::pi().show())];
            if let Some(std_pi) = E::std_pi() {
                v.push(("std-consts-PI", std_pi.show()));
            }
            v
        }
        _ => return None,
    }))
}

fn real_trace<E: WElem + Real>(f: &str, a: Trace<E>) -> Option<String>
where
    for<'x> &'x E: RealRef<E>,
{
    Some(merge(match f {
        "sqrt" => two_forms_fn!(show_trace, a, sqrt),
        "exp" => two_forms_fn!(show_trace, a, exp),
        "ln" => two_forms_fn!(show_trace, a, ln),
        "sin" => two_forms_fn!(show_trace, a, sin),
        "cos" => two_forms_fn!(show_trace, a, cos),
        "pi" => vec![("1", show_trace(catch(|| Trace::<E>::pi()))), ("2", show_trace(catch(|| Trace::<E>::pi())))],
        _ => return None,
    }))
}

fn real_record<E: WElem + Real>(f: &str, va: bool, a: &E) -> Option<String>
where
    for<'x> &'x E: RealRef<E>,
{
    let mut out = vec![];
    for (name, by_ref) in [("v", false), ("r", true)] {
        let r = catch(|| {
            let list = WengertList::new();
            let x: Record<E> = mk::<E>(va, a, &list);
            let xk = x.clone();
            let z: Record<E> = match (f, by_ref) {
                ("sqrt", false) => x.sqrt(),
                ("sqrt", true) => (&x).sqrt(),
                ("exp", false) => x.exp(),
                ("exp", true) => (&x).exp(),
                ("ln", false) => x.ln(),
                ("ln", true) => (&x).ln(),
                ("sin", false) => x.sin(),
                ("sin", true) => (&x).sin(),
                ("cos", false) => x.cos(),
                ("cos", true) => (&x).cos(),
                _ => Record::<E>::pi(),
            };
            describe::<E>(&z, if va { Some(&xk) } else { None }, None)
        });
        out.push((name, match r { Ok(s) => s, Err(k) => panic_str(k) }));
    }
    if !["sqrt", "exp", "ln", "sin", "cos", "pi"].contains(&f) {
        return None;
    }
    Some(merge(out))
}

// ---------------------------------------------------------------------------------------------
// dispatch
// ---------------------------------------------------------------------------------------------

fn kinds(s: &str) -> Option<(bool, bool)> {
    match s {
        "vv" => Some((true, true)),
        "vc" => Some((true, false)),
        "cv" => Some((false, true)),
        "cc" => Some((false, false)),
        _ => None,
    }
}

fn kind(s: &str) -> Option<bool> {
    match s {
        "v" => Some(true),
        "c" => Some(false),
        _ => None,
    }
}

fn run_at<E: WElem>(cmd: &str, args: &[&str]) -> Option<String>
where
    for<'x> &'x E: NumericRef<E>,
{
    let p = |i: usize| args.get(i).and_then(|s| E::parse(s));
    match cmd {
        "trop" => trace_bin::<E>(args.first()?, Trace { number: p(1)?, derivative: p(2)? }, Trace { number: p(3)?, derivative: p(4)? }),
        "trsc" => trace_scalar::<E>(args.first()?, Trace { number: p(1)?, derivative: p(2)? }, p(3)?),
        "trneg" => Some(trace_neg::<E>(Trace { number: p(0)?, derivative: p(1)? })),
        "recop" => {
            let (va, vb) = kinds(args.first()?)?;
            record_bin::<E>(args.get(1)?, va, vb, &p(2)?, &p(3)?)
        }
        "recsc" => record_scalar::<E>(args.get(1)?, kind(args.first()?)?, &p(2)?, &p(3)?),
        "recneg" => Some(record_neg::<E>(kind(args.first()?)?, &p(1)?)),
        "recsw" => record_swapped::<E>(args.get(1)?, kind(args.first()?)?, &p(2)?, &p(3)?),
        _ => None,
    }
}

fn run_real<E: WElem + Real + PartialEq>(cmd: &str, args: &[&str]) -> Option<String>
where
    for<'x> &'x E: RealRef<E>,
{
    let p = |i: usize| args.get(i).and_then(|s| E::parse(s));
    match cmd {
        "freal" => real_prim::<E>(args.first()?, p(1)?, p(2)?),
        "trreal" => real_trace::<E>(args.first()?, Trace { number: p(1)?, derivative: p(2)? }),
        "recreal" => real_record::<E>(args.get(1)?, kind(args.first()?)?, &p(2)?),
        "trpow" => Some(trace_pow::<E>(Trace { number: p(0)?, derivative: p(1)? }, Trace { number: p(2)?, derivative: p(3)? })),
        "recpow" => {
            let (va, vb) = kinds(args.first()?)?;
            Some(record_pow::<E>(va, vb, &p(1)?, &p(2)?))
        }
        _ => None,
    }
}

pub fn run(cmd: &str, toks: &[&str]) -> String {
    let Some((elem, args)) = toks.split_first() else { return "bad-op".into() };
    let r = match *elem {
        "i64" => run_at::<i64>(cmd, args),
        "i32" => run_at::<i32>(cmd, args),
        "i8" => run_at::<i8>(cmd, args),
        "wrapping_u8" => run_at::<Wrapping<u8>>(cmd, args),
        "Fp" => run_at::<Fp>(cmd, args).or_else(|| {
            // Real functions at Fp: form agreement only here (their formulas are C04 / C05)
            run_real::<Fp>(cmd, args).map(|s| if s.contains("forms-differ") { s } else { "agree".into() })
        }),
        // floats: the forms are compared with each other only
        "f64" => run_at::<f64>(cmd, args)
            .or_else(|| run_real::<f64>(cmd, args))
            .map(|s| if s.starts_with("forms-differ") || s.contains(" forms-differ") { s } else { "agree".into() }),
        "f32" => run_at::<f32>(cmd, args)
            .or_else(|| run_real::<f32>(cmd, args))
            .map(|s| if s.starts_with("forms-differ") || s.contains(" forms-differ") { s } else { "agree".into() }),
        _ => None,
    };
    r.unwrap_or_else(|| "bad-op".into())
}

// ---------------------------------------------------------------------------------------------
// generator
// ---------------------------------------------------------------------------------------------

fn val(g: &mut Gen, elem: &str, nonzero: bool) -> String {
    loop {
        let s = match elem {
            "i64" => (g.rng.below(41) as i64 - 20).to_string(),
            "wrapping_u8" => {
                if g.rng.chance(1, 6) { g.rng.pick(&[0u8, 1, 2, 16, 32, 127, 128, 255]).to_string() } else { g.rng.below(256).to_string() }
            }
            "Fp" => {
                if g.rng.chance(1, 8) { g.rng.below(3).to_string() } else { (g.rng.next() % P).to_string() }
            }
            "f32" => {
                if g.rng.chance(1, 10) {
                    g.rng.pick(&[0.0f32, -0.0, 1.0, -1.0, f32::INFINITY, f32::NAN, 1e-30, 1e30]).to_bits().to_string()
                } else {
                    (((g.rng.below(4001) as f32) - 2000.0) / 16.0).to_bits().to_string()
                }
            }
            _ => {
                if g.rng.chance(1, 10) {
                    g.rng.pick(&[0.0f64, -0.0, 1.0, -1.0, f64::INFINITY, f64::NAN, 1e-300, 1e300]).to_bits().to_string()
                } else {
                    (((g.rng.below(4001) as f64) - 2000.0) / 16.0).to_bits().to_string()
                }
            }
        };
        if nonzero && (s == "0") {
            continue;
        }
        return s;
    }
}

/// MIN, MIN+1, -1, 0, 1, MAX-1, MAX (and a few small values) of a bounded integer type
fn boundary(g: &mut Gen, elem: &str) -> String {
    let (min, max): (i128, i128) = match elem {
        "i8" => (i8::MIN as i128, i8::MAX as i128),
        "i32" => (i32::MIN as i128, i32::MAX as i128),
        _ => (i64::MIN as i128, i64::MAX as i128),
    };
    let pool = [min, min + 1, -1, 0, 1, max - 1, max, 2, -2, 3, max / 2, min / 2];
    if g.rng.chance(3, 4) { pool[g.rng.below(7)].to_string() } else { pool[g.rng.below(pool.len())].to_string() }
}

/// every operator and form of Trace / Record at the bounded integers' boundary values: the
/// wrapper's number (or panic kind) is the plain checked operator's on the same operands
fn gen_boundaries(g: &mut Gen) {
    let reps = if g.thorough { 60 } else { 10 };
    for elem in ["i8", "i32", "i64"] {
        for op in ["add", "sub", "mul", "div"] {
            for _ in 0..reps {
                let (an, ad, bn, bd) = (boundary(g, elem), boundary(g, elem), boundary(g, elem), boundary(g, elem));
                g.op(format!("@ trop {} {} {} {} {} {}", elem, op, an, ad, bn, bd));
                g.op(format!("@ trsc {} {} {} {} {}", elem, op, an, ad, bn));
                for ks in ["vv", "vc", "cv", "cc"] {
                    g.op(format!("@ recop {} {} {} {} {}", elem, ks, op, an, bn));
                }
                for k in ["v", "c"] {
                    g.op(format!("@ recsc {} {} {} {} {}", elem, k, op, an, bn));
                    if op == "sub" || op == "div" {
                        g.op(format!("@ recsw {} {} {} {} {}", elem, k, op, an, bn));
                        g.count(&format!("wrap.boundary.record-swapped.{}.{}", elem, op));
                    }
                }
                g.count(&format!("wrap.boundary.{}.{}", elem, op));
            }
        }
        for _ in 0..reps {
            let (an, ad) = (boundary(g, elem), boundary(g, elem));
            g.op(format!("@ trneg {} {} {}", elem, an, ad));
            for k in ["v", "c"] {
                g.op(format!("@ recneg {} {} {}", elem, k, an));
            }
            g.count(&format!("wrap.boundary.{}.neg", elem));
        }
    }
}

pub fn gen(g: &mut Gen) {
    gen_boundaries(g);
    let reps = if g.thorough { 120 } else { 12 };
    let ops = ["add", "sub", "mul", "div"];
    for elem in ["i64", "wrapping_u8", "Fp", "f64", "f32"] {
        for op in ops {
            for i in 0..reps {
                // mostly a != b and a non-zero divisor; now and then a zero divisor (panic / x/0)
                let nz = i % 6 != 5;
                let (an, ad, bd) = (val(g, elem, false), val(g, elem, false), val(g, elem, false));
                let bn = loop {
                    let b = val(g, elem, nz);
                    if b != an || i % 7 == 6 {
                        break b;
                    }
                };
                g.op(format!("@ trop {} {} {} {} {} {}", elem, op, an, ad, bn, bd));
                g.count(&format!("wrap.trace.{}.{}", elem, op));
                g.op(format!("@ trsc {} {} {} {} {}", elem, op, an, ad, bn));
                g.count(&format!("wrap.trace-scalar.{}.{}", elem, op));
                for ks in ["vv", "vc", "cv", "cc"] {
                    g.op(format!("@ recop {} {} {} {} {}", elem, ks, op, an, bn));
                    g.count(&format!("wrap.record.{}.{}", ks, op));
                }
                for k in ["v", "c"] {
                    g.op(format!("@ recsc {} {} {} {} {}", elem, k, op, an, bn));
                    g.count(&format!("wrap.record-scalar.{}.{}", k, op));
                    if op == "sub" || op == "div" {
                        g.op(format!("@ recsw {} {} {} {} {}", elem, k, op, an, bn));
                        g.count(&format!("wrap.record-swapped.{}.{}", k, op));
                    }
                }
                g.count(&format!("wrap.type.{}", elem));
                if an != bn {
                    g.count("wrap.distinct-operands");
                }
            }
        }
        for _ in 0..reps {
            let (an, ad) = (val(g, elem, false), val(g, elem, false));
            g.op(format!("@ trneg {} {} {}", elem, an, ad));
            g.count("wrap.trace.neg");
            for k in ["v", "c"] {
                g.op(format!("@ recneg {} {} {}", elem, k, an));
                g.count("wrap.record.neg");
            }
        }
        if elem == "Fp" || elem == "f64" || elem == "f32" {
            for f in ["sqrt", "exp", "ln", "sin", "cos", "pow", "pi"] {
                for _ in 0..reps {
                    let (a, b) = (val(g, elem, false), val(g, elem, false));
                    g.op(format!("@ freal {} {} {} {}", elem, f, a, b));
                    g.count(&format!("real.prim.{}.{}", elem, f));
                    if f != "pow" {
                        g.op(format!("@ trreal {} {} {} {}", elem, f, a, b));
                        g.count(&format!("real.trace.{}.{}", elem, f));
                        for k in ["v", "c"] {
                            g.op(format!("@ recreal {} {} {} {}", elem, k, f, a));
                            g.count(&format!("real.record.{}.{}", elem, f));
                        }
                    }
                }
            }
            for _ in 0..reps {
                let (an, ad, bn, bd) = (val(g, elem, false), val(g, elem, false), val(g, elem, false), val(g, elem, false));
                g.op(format!("@ trpow {} {} {} {} {}", elem, an, ad, bn, bd));
                g.count("wrap.trace.pow");
                for ks in ["vv", "vc", "cv", "cc"] {
                    g.op(format!("@ recpow {} {} {} {}", elem, ks, an, bn));
                    g.count("wrap.record.pow");
                }
            }
        }
    }
}
