//! C06 — the API surface of the record containers, scanned from the source tree.
//!
//! * `scan(repo)` lists every `pub fn` of an inherent impl, every trait impl (with each of its
//!   `fn`s), every derive and every operator macro invocation of
//!   `src/differentiation/container_record/{mod,container_operations,iterators}.rs`,
//!   `container_operations/swapped.rs`, and of the `TensorAccess` impls over record tensors in
//!   `src/tensors/indexing.rs`.
//! * `routes(item)` says which call sites of the runner (c06.rs) drive the item: each call site
//!   records a *route* (`hit`) when it runs.  `None`: the item is not in the table.
//! * the generator ends the stream with `api-report <routes…>`; the runner answers with the routes
//!   never hit during the run (`## missing=`), the model with `## missing=`: an item that is
//!   not in the table (route `UNLISTED:<item>`) or a route that no generated line reaches any
//!   more is reported as `no-failing-input-found`.

use std::cell::RefCell;
use std::collections::BTreeSet;

thread_local! {
    static HITS: RefCell<BTreeSet<String>> = RefCell::new(BTreeSet::new());
    static COMPLAINT: RefCell<Option<String>> = RefCell::new(None);
}

/// a call site of the runner reached the API item(s) behind `route`
pub fn hit(route: &str) {
    HITS.with(|h| {
        let mut h = h.borrow_mut();
        if !h.contains(route) {
            h.insert(route.to_string());
        }
    });
}

pub fn was_hit(route: &str) -> bool {
    HITS.with(|h| h.borrow().contains(route))
}

/// a comparison made inside the runner failed (the answer of the line becomes `api-check-failed`)
pub fn complain(what: String) {
    COMPLAINT.with(|c| {
        let mut c = c.borrow_mut();
        if c.is_none() {
            *c = Some(what);
        }
    });
}

pub fn take_complaint() -> Option<String> {
    COMPLAINT.with(|c| c.borrow_mut().take())
}

/// the route of an operator / method reached through the `(op, via)` vocabulary of the protocol
pub fn op_route(kind: &str, op: &str, via: &str) -> String {
    let cont = if kind == "T" { "RecordTensor<T,S,D>" } else { "RecordMatrix<T,S>" };
    match op {
        "unary" => format!("{}::unary", cont),
        "binary" => format!("{}::binary", cont),
        "emul" => format!("{}::elementwise_multiply", cont),
        "ediv" => format!("{}::elementwise_divide", cont),
        "neg" | "sin" | "cos" | "exp" | "ln" | "sqrt" => format!("{}.{}.{}", kind, op, if via == "ref" { "ref" } else { "val" }),
        _ => {
            let form = match via {
                "val_val" | "val_ref" | "ref_val" => via,
                _ => "ref_ref",
            };
            format!("{}.{}.{}", kind, op, form)
        }
    }
}

pub fn hit_op(kind: &str, op: &str, via: &str) {
    hit(&op_route(kind, op, via));
}

/// the all-references form
pub fn hit_op_lite(kind: &str, op: &str) {
    let via = if matches!(op, "neg" | "sin" | "cos" | "exp" | "ln" | "sqrt") { "ref" } else { "ref_ref" };
    hit(&op_route(kind, op, via));
}

// ---------------------------------------------------------------------------------------------
// scan
// ---------------------------------------------------------------------------------------------

const FILES: [(&str, bool); 5] = [
    ("src/differentiation/container_record/mod.rs", false),
    ("src/differentiation/container_record/container_operations.rs", false),
    ("src/differentiation/container_record/container_operations/swapped.rs", false),
    ("src/differentiation/container_record/iterators.rs", false),
    // only the impl blocks that mention record tensors
    ("src/tensors/indexing.rs", true),
];

/// `impl<…> Header where` → `Header` without lifetimes and blanks (blanks around `for` kept as `~`)
fn normalise_header(h: &str) -> String {
    let h = h.trim();
    let h = h.strip_prefix("unsafe ").unwrap_or(h);
    let h = h.strip_prefix("impl").unwrap_or(h);
    // the generic parameter list of the impl
    let h = if h.starts_with('<') {
        let mut depth = 0i32;
        let mut end = 0usize;
        for (i, ch) in h.char_indices() {
            match ch {
                '<' => depth += 1,
                '>' => {
                    depth -= 1;
                    if depth == 0 {
                        end = i + 1;
                        break;
                    }
                }
                _ => {}
            }
        }
        &h[end..]
    } else {
        h
    };
    let h = h.trim().trim_end_matches('{').trim();
    let h = match h.find(" where") {
        Some(k) => &h[..k],
        None => h,
    };
    // lifetimes
    let mut out = String::new();
    let chars: Vec<char> = h.chars().collect();
    let mut i = 0;
    while i < chars.len() {
        if chars[i] == '\'' {
            // skip `'a` and a following `, ` / blank
            i += 1;
            while i < chars.len() && (chars[i].is_alphanumeric() || chars[i] == '_') {
                i += 1;
            }
            if i < chars.len() && chars[i] == ',' {
                i += 1;
            }
            while i < chars.len() && chars[i] == ' ' {
                i += 1;
            }
            continue;
        }
        out.push(chars[i]);
        i += 1;
    }
    let out = out.replace(" for ", "~for~").replace("&mut ", "&mut~");
    out.chars().filter(|c| !c.is_whitespace()).collect()
}

/// every API item of the scanned files, in source order
pub fn scan(repo: &str) -> Option<Vec<String>> {
    let mut out: Vec<String> = vec![];
    for (file, only_records) in FILES {
        let text = std::fs::read_to_string(format!("{}/{}", repo, file)).ok()?;
        let lines: Vec<&str> = text.lines().collect();
        let mut i = 0usize;
        let mut derives: Vec<String> = vec![];
        while i < lines.len() {
            let line = lines[i];
            if line.starts_with("#[derive(") {
                derives = line
                    .trim_start_matches("#[derive(")
                    .trim_end_matches(")]")
                    .split(',')
                    .map(|s| s.trim().to_string())
                    .filter(|s| !s.is_empty())
                    .collect();
                i += 1;
                continue;
            }
            if line.starts_with("pub struct ") || line.starts_with("pub enum ") {
                let name: String = line.split(' ').nth(2).unwrap_or("").chars().take_while(|c| c.is_alphanumeric() || *c == '_').collect();
                if !only_records {
                    for d in &derives {
                        out.push(format!("derive~{}~for~{}", d, name));
                    }
                }
                derives.clear();
                i += 1;
                continue;
            }
            if line.starts_with("pub fn ") && !only_records {
                let name: String = line["pub fn ".len()..].chars().take_while(|c| c.is_alphanumeric() || *c == '_').collect();
                out.push(format!("fn~{}", name));
            }
            // operator macro invocations and the hand-written operator impls are listed by the
            // scan of c06_gen.rs (`c06.scan.*`); here: `record_…!(impl Trait for Container …)`
            if line.starts_with("record_") && line.contains("!(impl ") {
                let mac = line.split('!').next().unwrap().to_string();
                let rest = line.split("!(impl ").nth(1).unwrap();
                let mut it = rest.split(' ');
                let tr = it.next().unwrap_or("").to_string();
                let _for = it.next();
                let cont = it.next().unwrap_or("").to_string();
                out.push(format!("macro~{}~{}~{}", mac, tr, cont));
            }
            if line.starts_with("impl") || line.starts_with("unsafe impl") {
                // header: up to `where` / `{`
                let mut header = String::new();
                let mut j = i;
                loop {
                    let l = lines[j].trim();
                    if l == "where" || l.starts_with("where ") {
                        break;
                    }
                    if !header.is_empty() {
                        header.push(' ');
                    }
                    header.push_str(l);
                    if l.ends_with('{') || l.ends_with("{}") || j + 1 >= lines.len() {
                        break;
                    }
                    j += 1;
                }
                let key = normalise_header(&header);
                let is_trait = key.contains("~for~");
                let relevant = !only_records || key.contains("RecordTensor") || key.contains("RecordMatrix");
                if relevant && is_trait {
                    out.push(format!("impl~{}", key));
                }
                // the body: up to the closing brace in column 0
                let mut k = j;
                while k < lines.len() && lines[k] != "}" && !(lines[k].ends_with("{}") && !lines[k].starts_with(' ')) {
                    let l = lines[k];
                    if relevant && l.starts_with("    ") && !l.starts_with("     ") {
                        let t = l.trim_start();
                        let (is_pub, rest) = match t.strip_prefix("pub ") {
                            Some(r) => (true, r),
                            None => (false, t),
                        };
                        let rest = rest.strip_prefix("unsafe ").unwrap_or(rest);
                        if let Some(r) = rest.strip_prefix("fn ") {
                            let name: String = r.chars().take_while(|c| c.is_alphanumeric() || *c == '_').collect();
                            if is_trait {
                                out.push(format!("impl~{}::{}", key, name));
                            } else if is_pub {
                                out.push(format!("{}::{}", key, name));
                            }
                        }
                    }
                    k += 1;
                }
                i = k + 1;
                continue;
            }
            i += 1;
        }
    }
    Some(out)
}

// ---------------------------------------------------------------------------------------------
// table
// ---------------------------------------------------------------------------------------------

pub enum Driven {
    /// the routes (call sites of the runner) that must be reached
    Routes(Vec<String>),
    /// deliberately not driven by this check: why
    No(&'static str),
}

const FORMS4: [&str; 4] = ["val_val", "val_ref", "ref_val", "ref_ref"];

fn kind_of(cont: &str) -> &'static str {
    if cont.contains("RecordTensor") {
        "T"
    } else {
        "M"
    }
}

fn forms(kind: &str, op: &str, forms: &[&str]) -> Driven {
    Driven::Routes(forms.iter().map(|f| format!("{}.{}.{}", kind, op, f)).collect())
}

/// items driven by a route of their own name (the runner calls `hit("<item>")` where it calls them)
const DIRECT: &[&str] = &[
    // mod.rs: constructors, accessors, views
    "RecordTensor<T,Tensor<(T,Index),D>,D>::constants",
    "RecordTensor<T,Tensor<(T,Index),D>,D>::variables",
    "RecordTensor<T,S,D>::elements",
    "RecordTensor<T,S,D>::shape",
    "RecordTensor<T,S,D>::from_existing",
    "RecordTensor<T,S,D>::rename_view",
    "RecordTensor<T,S,D>::view",
    "RecordTensor<T,S,D>::index_by",
    "RecordTensor<T,S,D>::index",
    "RecordTensor<T,S,D>::iter_as_records",
    "RecordTensor<T,S,D>::reset",
    "RecordTensor<T,S,D>::do_reset",
    "RecordMatrix<T,Matrix<(T,Index)>>::constants",
    "RecordMatrix<T,Matrix<(T,Index)>>::variables",
    "RecordMatrix<T,S>::elements",
    "RecordMatrix<T,S>::size",
    "RecordMatrix<T,S>::rows",
    "RecordMatrix<T,S>::columns",
    "RecordMatrix<T,S>::from_existing",
    "RecordMatrix<T,S>::view",
    "RecordMatrix<T,S>::iter_row_major_as_records",
    "RecordMatrix<T,S>::iter_column_major_as_records",
    "RecordMatrix<T,S>::get_as_record",
    "RecordMatrix<T,S>::try_get_as_record",
    "RecordMatrix<T,S>::reset",
    "RecordMatrix<T,S>::do_reset",
    "RecordContainer<T,S,D>::history",
    // operations
    "RecordTensor<T,S,D>::unary",
    "RecordTensor<T,S,D>::binary",
    "RecordTensor<T,S,D>::map",
    "RecordTensor<T,S,D>::map_with_index",
    "RecordTensor<T,S,D>::derivatives",
    "RecordTensor<T,S,D>::derivatives_for",
    "RecordTensor<T,S,D>::elementwise_multiply",
    "RecordTensor<T,S,D>::elementwise_divide",
    "Derivatives<T>::at_tensor_index",
    "Derivatives<T>::at_tensor",
    "Derivatives<T>::at_matrix_index",
    "Derivatives<T>::at_matrix",
    "RecordTensor<T,S,D>::unary_assign",
    "RecordTensor<T,S,D>::binary_left_assign",
    "RecordTensor<T,S,D>::do_unary_assign",
    "RecordTensor<T,S,D>::do_binary_left_assign",
    "RecordTensor<T,S,D>::map_mut",
    "RecordTensor<T,S,D>::map_mut_with_index",
    "RecordTensor<T,S,D>::binary_right_assign",
    "RecordTensor<T,S,D>::do_binary_right_assign",
    "RecordMatrix<T,S>::unary",
    "RecordMatrix<T,S>::binary",
    "RecordMatrix<T,S>::map",
    "RecordMatrix<T,S>::map_with_index",
    "RecordMatrix<T,S>::derivatives",
    "RecordMatrix<T,S>::derivatives_for",
    "RecordMatrix<T,S>::elementwise_multiply",
    "RecordMatrix<T,S>::elementwise_divide",
    "RecordMatrix<T,S>::unary_assign",
    "RecordMatrix<T,S>::binary_left_assign",
    "RecordMatrix<T,S>::do_unary_assign",
    "RecordMatrix<T,S>::do_binary_left_assign",
    "RecordMatrix<T,S>::map_mut",
    "RecordMatrix<T,S>::map_mut_with_index",
    "RecordMatrix<T,S>::binary_right_assign",
    "RecordMatrix<T,S>::do_binary_right_assign",
    // the container as a source, through the traits
    "impl~TensorRef<(T,Index),D>~for~RecordTensor<T,S,D>::get_reference",
    "impl~TensorRef<(T,Index),D>~for~RecordTensor<T,S,D>::view_shape",
    "impl~TensorRef<(T,Index),D>~for~RecordTensor<T,S,D>::get_reference_unchecked",
    "impl~TensorRef<(T,Index),D>~for~RecordTensor<T,S,D>::data_layout",
    "impl~TensorMut<(T,Index),D>~for~RecordTensor<T,S,D>::get_reference_mut",
    "impl~TensorMut<(T,Index),D>~for~RecordTensor<T,S,D>::get_reference_unchecked_mut",
    "impl~MatrixRef<(T,Index)>~for~RecordMatrix<T,S>::try_get_reference",
    "impl~MatrixRef<(T,Index)>~for~RecordMatrix<T,S>::view_rows",
    "impl~MatrixRef<(T,Index)>~for~RecordMatrix<T,S>::view_columns",
    "impl~MatrixRef<(T,Index)>~for~RecordMatrix<T,S>::get_reference_unchecked",
    "impl~MatrixRef<(T,Index)>~for~RecordMatrix<T,S>::data_layout",
    "impl~MatrixMut<(T,Index)>~for~RecordMatrix<T,S>::try_get_reference_mut",
    "impl~MatrixMut<(T,Index)>~for~RecordMatrix<T,S>::get_reference_unchecked_mut",
    // conversions
    "impl~From<RecordTensor<T,S,0>>~for~Record<T>::from",
    "impl~From<&RecordTensor<T,S,0>>~for~Record<T>::from",
    "impl~From<Record<T>>~for~RecordTensor<T,Tensor<(T,Index),0>,0>::from",
    "impl~From<&Record<T>>~for~RecordTensor<T,Tensor<(T,Index),0>,0>::from",
    "derive~Debug~for~RecordContainer",
    // container_operations.rs
    "impl~std::fmt::Display~for~RecordMatrix<T,S>::fmt",
    "impl~std::fmt::Display~for~RecordTensor<T,S,D>::fmt",
    "impl~Clone~for~RecordContainer<T,S,D>::clone",
    // iterators.rs
    "AsRecords<TensorIterator<(T,Index),RecordTensor<T,S,D>,D>,T>::from_tensor",
    "AsRecords<RowMajorIterator<(T,Index),RecordMatrix<T,S>>,T>::from_matrix_row_major",
    "AsRecords<ColumnMajorIterator<(T,Index),RecordMatrix<T,S>>,T>::from_matrix_column_major",
    "AsRecords<I,T>::from",
    "AsRecords<I,T>::with_index",
    "AsRecords<I,T>::from_with_index",
    "impl~From<AsRecords<I,T>>~for~WithIndex<AsRecords<WithIndex<I>,T>>::from",
    "impl~Iterator~for~AsRecords<I,T>::next",
    "impl~Iterator~for~AsRecords<I,T>::size_hint",
    "impl~ExactSizeIterator~for~AsRecords<I,T>",
    "impl~Iterator~for~WithIndex<AsRecords<I,T>>::next",
    "impl~Iterator~for~WithIndex<AsRecords<I,T>>::size_hint",
    "impl~ExactSizeIterator~for~WithIndex<AsRecords<I,T>>",
    "impl~fmt::Display~for~InvalidRecordIteratorError<T,D>::fmt",
    "impl~fmt::Display~for~InconsistentHistory<T>::fmt",
    "derive~Clone~for~InvalidRecordIteratorError",
    "derive~Debug~for~InvalidRecordIteratorError",
    "derive~Clone~for~InconsistentHistory",
    "derive~Debug~for~InconsistentHistory",
    "RecordTensor<T,Tensor<(T,Index),D>,D>::from_iter",
    "RecordTensor<T,Tensor<(T,Index),D>,D>::from_iters",
    "RecordMatrix<T,Matrix<(T,Index)>>::from_iter",
    "RecordMatrix<T,Matrix<(T,Index)>>::from_iters",
    // tensors/indexing.rs: element access as records, the three receiver forms
    "TensorAccess<(T,Index),&RecordTensor<T,S,D>,D>::get_as_record",
    "TensorAccess<(T,Index),&RecordTensor<T,S,D>,D>::try_get_as_record",
    "TensorAccess<(T,Index),RecordTensor<T,S,D>,D>::get_as_record",
    "TensorAccess<(T,Index),RecordTensor<T,S,D>,D>::try_get_as_record",
    "TensorAccess<(T,Index),&mut~RecordTensor<T,S,D>,D>::get_as_record",
    "TensorAccess<(T,Index),&mut~RecordTensor<T,S,D>,D>::try_get_as_record",
];

/// trait impl headers: driven exactly when their functions are (listed separately); marker
/// traits have no code of their own
const HEADERS: &[(&str, &str)] = &[
    ("impl~TensorRef<(T,Index),D>~for~RecordTensor<T,S,D>", ""),
    ("impl~TensorMut<(T,Index),D>~for~RecordTensor<T,S,D>", ""),
    ("impl~MatrixRef<(T,Index)>~for~RecordMatrix<T,S>", ""),
    ("impl~MatrixMut<(T,Index)>~for~RecordMatrix<T,S>", ""),
    ("impl~NoInteriorMutability~for~RecordMatrix<T,S>", "marker trait without code; a bound of every matrix operation the harness instantiates"),
    ("impl~From<RecordTensor<T,S,0>>~for~Record<T>", ""),
    ("impl~From<&RecordTensor<T,S,0>>~for~Record<T>", ""),
    ("impl~From<Record<T>>~for~RecordTensor<T,Tensor<(T,Index),0>,0>", ""),
    ("impl~From<&Record<T>>~for~RecordTensor<T,Tensor<(T,Index),0>,0>", ""),
    ("impl~std::fmt::Display~for~RecordMatrix<T,S>", ""),
    ("impl~std::fmt::Display~for~RecordTensor<T,S,D>", ""),
    ("impl~Clone~for~RecordContainer<T,S,D>", ""),
    ("impl~From<AsRecords<I,T>>~for~WithIndex<AsRecords<WithIndex<I>,T>>", ""),
    ("impl~Iterator~for~AsRecords<I,T>", ""),
    ("impl~FusedIterator~for~AsRecords<I,T>", "marker trait without code; what it promises (None after the end) is checked where the iterator is exhausted (`impl~Iterator~for~AsRecords<I,T>::next`)"),
    ("impl~Iterator~for~WithIndex<AsRecords<I,T>>", ""),
    ("impl~FusedIterator~for~WithIndex<AsRecords<I,T>>", "marker trait without code; checked where the iterator is exhausted"),
    ("impl~fmt::Display~for~InvalidRecordIteratorError<T,D>", ""),
    ("impl~fmt::Display~for~InconsistentHistory<T>", ""),
    ("impl~Error~for~InvalidRecordIteratorError<T,D>", "empty impl (default methods only); the harness uses the error as `&dyn Error`"),
    ("impl~Error~for~InconsistentHistory<T>", "empty impl (default methods only); the harness uses the error as `&dyn Error`"),
];

/// which routes drive an item; `None`: not in the table
pub fn routes(item: &str) -> Option<Driven> {
    if DIRECT.contains(&item) {
        return Some(Driven::Routes(vec![item.to_string()]));
    }
    // not overridden at present; `AnyC::copy` goes through it
    if item == "impl~Clone~for~RecordContainer<T,S,D>::clone_from" {
        return Some(Driven::Routes(vec!["Clone::clone_from".to_string()]));
    }
    if let Some((_, why)) = HEADERS.iter().find(|(h, _)| *h == item) {
        return Some(if why.is_empty() { Driven::Routes(vec![]) } else { Driven::No(why) });
    }
    // hand-written operator impls: `Mul` (matrix multiplication) and `SwappedOperations`
    if let Some(rest) = item.strip_prefix("impl~") {
        let (head, method) = match rest.split_once("::") {
            Some((h, m)) => (h, Some(m)),
            None => (rest, None),
        };
        if let Some((tr, ty)) = head.split_once("~for~") {
            let self_ref = ty.starts_with('&');
            let kind = kind_of(ty);
            let arg_ref = tr.contains("<&");
            let form = format!("{}_{}", if self_ref { "ref" } else { "val" }, if arg_ref { "ref" } else { "val" });
            let plain = (ty.trim_start_matches('&').starts_with("RecordTensor<T,S") || ty.trim_start_matches('&').starts_with("RecordMatrix<T,S")) && !ty.contains("Index");
            if plain && tr.starts_with("Mul<") && (tr.contains("RecordTensor<") || tr.contains("RecordMatrix<")) {
                return Some(match method {
                    None => Driven::Routes(vec![]),
                    Some("mul") => Driven::Routes(vec![format!("{}.matmul.{}", kind, form)]),
                    Some(_) => return None,
                });
            }
            if plain && (tr == "SwappedOperations<T>" || tr == "SwappedOperations<&T>") {
                return Some(match method {
                    None => Driven::Routes(vec![]),
                    Some("sub_swapped") => Driven::Routes(vec![format!("{}.subsw.{}", kind, form)]),
                    Some("div_swapped") => Driven::Routes(vec![format!("{}.divsw.{}", kind, form)]),
                    Some(_) => return None,
                });
            }
        }
        return None;
    }
    // operator macro invocations
    if let Some(rest) = item.strip_prefix("macro~") {
        let parts: Vec<&str> = rest.split('~').collect();
        if parts.len() != 3 {
            return None;
        }
        let (mac, tr, cont) = (parts[0], parts[1], parts[2]);
        let kind = kind_of(cont);
        let c = if kind == "T" { "tensor" } else { "matrix" };
        if cont != "RecordTensor" && cont != "RecordMatrix" {
            return None;
        }
        let two = |tr: &str| match tr {
            "Add" => Some("add"),
            "Sub" => Some("sub"),
            _ => None,
        };
        for (suffix, form) in [("value_value", "val_val"), ("value_reference", "val_ref"), ("reference_value", "ref_val"), ("reference_reference", "ref_ref")] {
            if mac == format!("record_{}_operator_impl_{}", c, suffix) {
                return two(tr).map(|op| forms(kind, op, &[form]));
            }
        }
        for (suffix, form) in [("value", "val"), ("reference", "ref")] {
            if mac == format!("record_{}_operator_impl_{}", c, suffix) && tr == "Neg" {
                return Some(forms(kind, "neg", &[form]));
            }
        }
        if mac == format!("record_real_{}_operator_impl_unary", c) {
            let op = match tr {
                "Sin" => "sin",
                "Cos" => "cos",
                "Exp" => "exp",
                "Ln" => "ln",
                "Sqrt" => "sqrt",
                _ => return None,
            };
            return Some(forms(kind, op, &["val", "ref"]));
        }
        if mac == format!("record_real_{}_operator_impl_scalar", c) && tr == "Pow" {
            return Some(forms(kind, "pown", &FORMS4));
        }
        if mac == format!("record_real_{}_operator_impl_scalar_no_orphan_rule", c) && tr == "Pow" {
            return Some(forms(kind, "npow", &FORMS4));
        }
        if mac == format!("record_{}_operator_impl_scalar", c) {
            let op = match tr {
                "Add" => "addn",
                "Sub" => "subn",
                "Mul" => "muln",
                "Div" => "divn",
                _ => return None,
            };
            return Some(forms(kind, op, &FORMS4));
        }
        return None;
    }
    None
}
