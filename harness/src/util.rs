//! Shared plumbing of the correspondence harness: one PRNG, panic classification, name
//! interning, parsing of the line protocol, counters for the input distribution.

use std::collections::{BTreeMap, HashMap};
use std::panic::{catch_unwind, AssertUnwindSafe};
use std::sync::Mutex;

/// SplitMix64: every random choice of a run derives from one state (VERIF_SEED).
#[derive(Clone)]
pub struct Rng(pub u64);

impl Rng {
    pub fn new(seed: u64) -> Rng {
        Rng(seed ^ 0x9E37_79B9_7F4A_7C15)
    }
    pub fn next(&mut self) -> u64 {
        self.0 = self.0.wrapping_add(0x9E37_79B9_7F4A_7C15);
        let mut z = self.0;
        z = (z ^ (z >> 30)).wrapping_mul(0xBF58_476D_1CE4_E5B9);
        z = (z ^ (z >> 27)).wrapping_mul(0x94D0_49BB_1331_11EB);
        z ^ (z >> 31)
    }
    /// uniform in 0..n (n > 0)
    pub fn below(&mut self, n: usize) -> usize {
        (self.next() % (n as u64)) as usize
    }
    pub fn range(&mut self, lo: usize, hi_inclusive: usize) -> usize {
        lo + self.below(hi_inclusive - lo + 1)
    }
    pub fn chance(&mut self, num: usize, den: usize) -> bool {
        self.below(den) < num
    }
    pub fn pick<'a, T>(&mut self, items: &'a [T]) -> &'a T {
        &items[self.below(items.len())]
    }
    pub fn shuffle<T>(&mut self, items: &mut [T]) {
        for i in (1..items.len()).rev() {
            let j = self.below(i + 1);
            items.swap(i, j);
        }
    }
}

/// The kinds of panic the model distinguishes.
#[derive(Clone, Copy, Debug, PartialEq, Eq)]
pub enum PanicKind {
    Explicit,
    Overflow,
    Index,
    Unwrap,
    Borrow,
    Hook,
}

impl PanicKind {
    pub fn as_str(self) -> &'static str {
        match self {
            PanicKind::Explicit => "explicit",
            PanicKind::Overflow => "overflow",
            PanicKind::Index => "index",
            PanicKind::Unwrap => "unwrap",
            PanicKind::Borrow => "borrow",
            PanicKind::Hook => "hook",
        }
    }
}

pub fn classify(msg: &str) -> PanicKind {
    if msg.starts_with("VERIF-HOOK") {
        PanicKind::Hook
    } else if msg.starts_with("attempt to ") && msg.contains("overflow") {
        PanicKind::Overflow
    } else if msg.contains("index out of bounds")
        || msg.contains("out of range for slice")
        || msg.contains("insertion index")
        || msg.contains("removal index")
        || msg.contains("mid > len")
        || msg.contains("slice index starts at")
    {
        PanicKind::Index
    } else if msg.contains("called `Option::unwrap()` on a `None` value")
        || msg.contains("called `Result::unwrap()` on an `Err` value")
    {
        PanicKind::Unwrap
    } else if msg.contains("already borrowed") || msg.contains("already mutably borrowed") {
        PanicKind::Borrow
    } else {
        PanicKind::Explicit
    }
}

pub fn silence_panics() {
    std::panic::set_hook(Box::new(|_| {}));
}

/// Runs `f`, mapping a panic to its kind.
pub fn catch<T>(f: impl FnOnce() -> T) -> Result<T, PanicKind> {
    match catch_unwind(AssertUnwindSafe(f)) {
        Ok(v) => Ok(v),
        Err(payload) => {
            let msg = if let Some(s) = payload.downcast_ref::<&str>() {
                (*s).to_string()
            } else if let Some(s) = payload.downcast_ref::<String>() {
                s.clone()
            } else {
                String::new()
            };
            Err(classify(&msg))
        }
    }
}

pub fn panic_str(k: PanicKind) -> String {
    format!("panic({})", k.as_str())
}

/// Dimension names must be `&'static str`; interned and leaked once per distinct name.
/// Token standing for the empty dimension name `""` in the line protocol.
pub const EMPTY_NAME: &str = "_empty_";

/// Names chosen to expose code that treats dimension names other than as opaque, compared-by-text
/// strings: the names the library uses internally ("row", "column", "r", "c", "i", "samples",
/// "features"), names that are prefixes / substrings of one another, one-letter names, names out
/// of alphabetical order and the empty name (written `_empty_` on the wire).
pub const ADVERSARIAL_NAMES: [&str; 20] = [
    "row", "rows", "column", "columns", "r", "c", "rr", "i", "j", "x", "xy", "a", "aa", "ab",
    "b", "samples", "features", "batch", "z", EMPTY_NAME,
];

/// `k` distinct adversarial names, in an order drawn from the run's PRNG.
pub fn adversarial_names(rng: &mut Rng, k: usize) -> Vec<&'static str> {
    let mut pool: Vec<&str> = ADVERSARIAL_NAMES.to_vec();
    rng.shuffle(&mut pool);
    pool.truncate(k);
    pool.iter().map(|n| wire_name(n)).collect()
}

/// The wire token of a name as a `&'static str` (not the name itself: see `intern`).
pub fn wire_name(name: &str) -> &'static str {
    ADVERSARIAL_NAMES.iter().copied().find(|n| *n == name).unwrap_or_else(|| Box::leak(name.to_string().into_boxed_str()))
}

pub fn intern(name: &str) -> &'static str {
    let name = if name == EMPTY_NAME { "" } else { name };
    // Equal names are deliberately handed out at DIFFERENT addresses: each distinct name has
    // three leaked copies and successive calls rotate through them, so library code that
    // compared dimension names by pointer instead of by text would be exposed, while the
    // memory leaked stays bounded.  The answers of a run must not depend on this.
    const COPIES: usize = 3;
    static TABLE: Mutex<Option<HashMap<String, (Vec<&'static str>, usize)>>> = Mutex::new(None);
    let mut guard = TABLE.lock().unwrap();
    let table = guard.get_or_insert_with(HashMap::new);
    let entry = table.entry(name.to_string()).or_insert_with(|| (Vec::new(), 0));
    if entry.0.len() < COPIES {
        let leaked: &'static str = Box::leak(name.to_string().into_boxed_str());
        entry.0.push(leaked);
        return leaked;
    }
    entry.1 = (entry.1 + 1) % COPIES;
    entry.0[entry.1]
}

pub fn split_comma(s: &str) -> Vec<&str> {
    if s == "-" || s.is_empty() {
        vec![]
    } else {
        s.split(',').collect()
    }
}

pub fn parse_usizes(s: &str) -> Vec<usize> {
    split_comma(s).iter().map(|t| t.parse::<usize>().expect("usize")).collect()
}

pub fn parse_names(s: &str) -> Vec<&'static str> {
    split_comma(s).iter().map(|t| intern(t)).collect()
}

pub fn parse_shape(s: &str) -> Vec<(&'static str, usize)> {
    split_comma(s)
        .iter()
        .map(|part| {
            let (n, l) = part.split_once(':').expect("name:len");
            (intern(n), l.parse::<usize>().expect("len"))
        })
        .collect()
}

pub fn show_usizes(v: &[usize]) -> String {
    if v.is_empty() {
        "-".to_string()
    } else {
        v.iter().map(|x| x.to_string()).collect::<Vec<_>>().join(",")
    }
}

pub fn show_names(v: &[&str]) -> String {
    if v.is_empty() {
        "-".to_string()
    } else {
        v.iter().map(|n| if n.is_empty() { EMPTY_NAME } else { n }).collect::<Vec<_>>().join(",")
    }
}

pub fn show_shape(v: &[(&str, usize)]) -> String {
    if v.is_empty() {
        "-".to_string()
    } else {
        v.iter()
            .map(|(n, l)| format!("{}:{}", if n.is_empty() { EMPTY_NAME } else { n }, l))
            .collect::<Vec<_>>()
            .join(",")
    }
}

pub fn opt_arg<'a>(key: &str, toks: &[&'a str]) -> Option<&'a str> {
    let prefix = format!("{}=", key);
    toks.iter().find_map(|t| t.strip_prefix(prefix.as_str()))
}

/// Collects generated operation lines and counters describing the input distribution.
pub struct Gen {
    pub rng: Rng,
    pub thorough: bool,
    pub lines: Vec<String>,
    pub stats: BTreeMap<String, u64>,
}

impl Gen {
    pub fn new(seed: u64, thorough: bool) -> Gen {
        Gen { rng: Rng::new(seed), thorough, lines: vec![], stats: BTreeMap::new() }
    }
    pub fn op(&mut self, line: String) {
        self.lines.push(line);
    }
    pub fn count(&mut self, key: &str) {
        *self.stats.entry(key.to_string()).or_insert(0) += 1;
    }
    pub fn count_n(&mut self, key: &str, n: u64) {
        *self.stats.entry(key.to_string()).or_insert(0) += n;
    }
    pub fn finish(self) {
        use std::io::Write;
        let stdout = std::io::stdout();
        let mut out = std::io::BufWriter::new(stdout.lock());
        for l in &self.lines {
            writeln!(out, "{}", l).unwrap();
        }
        for (k, v) in &self.stats {
            writeln!(out, "#stat {} {}", k, v).unwrap();
        }
    }
}

/// All permutations of 0..n (n small).
pub fn permutations(n: usize) -> Vec<Vec<usize>> {
    fn go(cur: &mut Vec<usize>, used: &mut Vec<bool>, n: usize, out: &mut Vec<Vec<usize>>) {
        if cur.len() == n {
            out.push(cur.clone());
            return;
        }
        for i in 0..n {
            if !used[i] {
                used[i] = true;
                cur.push(i);
                go(cur, used, n, out);
                cur.pop();
                used[i] = false;
            }
        }
    }
    let mut out = vec![];
    go(&mut vec![], &mut vec![false; n], n, &mut out);
    out
}

/// Dispatch a run-time dimensionality to a const generic.
#[macro_export]
macro_rules! with_d {
    ($d:expr, $D:ident => $body:expr) => {
        match $d {
            0 => { const $D: usize = 0; $body }
            1 => { const $D: usize = 1; $body }
            2 => { const $D: usize = 2; $body }
            3 => { const $D: usize = 3; $body }
            4 => { const $D: usize = 4; $body }
            5 => { const $D: usize = 5; $body }
            6 => { const $D: usize = 6; $body }
            other => panic!("unsupported dimensionality {}", other),
        }
    };
}

pub fn to_array<T: Copy + Default, const D: usize>(v: &[T]) -> [T; D] {
    assert_eq!(v.len(), D, "arity");
    let mut a = [T::default(); D];
    a.copy_from_slice(v);
    a
}

pub fn shape_array<const D: usize>(v: &[(&'static str, usize)]) -> [(&'static str, usize); D] {
    assert_eq!(v.len(), D, "arity");
    std::array::from_fn(|i| v[i])
}

pub fn names_array<const D: usize>(v: &[&'static str]) -> [&'static str; D] {
    assert_eq!(v.len(), D, "arity");
    std::array::from_fn(|i| v[i])
}
