//! C14 — mean, variance, covariance, softmax, F1.  See lean/Driver/C14.lean for the protocol.
//! Operand definitions (`t`, `v`, `m`, `w` lines) are shared with C03.

use crate::c03::{run_fp, run_rat, run_trace, Elem};
use easy_ml::differentiation::{Record, Trace, WengertList};
use crate::exact::{Fp, Rat, P};
use crate::util::*;
use easy_ml::linear_algebra;
use easy_ml::matrices::Matrix;
use easy_ml::tensors::indexing::TensorAccess;
use easy_ml::tensors::views::{TensorMask, TensorRange, TensorReverse, TensorView};
use easy_ml::tensors::Tensor;

// ---------------------------------------------------------------------------------------------
// generation
// ---------------------------------------------------------------------------------------------

fn fp_val(g: &mut Gen) -> String {
    match g.rng.below(16) {
        0 => "0".into(),
        1 => "1".into(),
        _ => (g.rng.next() % P).to_string(),
    }
}
fn rat_val(g: &mut Gen) -> String {
    let n = g.rng.below(25) as i128 - 12;
    let d = g.rng.range(1, 5) as i128;
    Rat::new(n, d).show()
}
fn val(g: &mut Gen, e: &str) -> String {
    if e == "fp" { fp_val(g) } else { rat_val(g) }
}
fn vals(g: &mut Gen, e: &str, n: usize) -> String {
    // degenerate data now and then: all zero, all equal, mostly zero, two distinct values
    if n > 0 && g.rng.chance(1, 10) {
        let (a, b) = (val(g, e), val(g, e));
        let mode = g.rng.below(4);
        g.count(&format!("data.degenerate.mode{}", mode));
        return (0..n)
            .map(|_| match mode {
                0 => "0".to_string(),
                1 => a.clone(),
                2 => if g.rng.chance(2, 3) { "0".to_string() } else { a.clone() },
                _ => if g.rng.chance(1, 2) { a.clone() } else { b.clone() },
            })
            .collect::<Vec<_>>()
            .join(",");
    }
    if n == 0 { "-".into() } else { (0..n).map(|_| val(g, e)).collect::<Vec<_>>().join(",") }
}

const LIST_VIAS: [&str; 4] = ["into_iter", "cloned", "matrix_column", "tensor_iter"];
/// iterator sources whose `size_hint` is not the exact remaining length (`mean`, `variance` and
/// `softmax` take any `Iterator<Item = T>` and must not depend on the hint); usable for every
/// length, the empty one included
const HINT_VIAS: [&str; 13] = [
    "filter", "filter_map", "take_while", "skip_while", "chain", "nohint", "loosehint", "chain_filter",
    // iterators of lazy tensor views showing the data in its logical order
    "rev_view", "range_view", "mask_view", "access_view", "reorder_view",
];

fn pick_list_via(g: &mut Gen, n: usize) -> &'static str {
    // half of the time one of the inexact-hint sources
    if g.rng.chance(1, 2) {
        HINT_VIAS[g.rng.below(HINT_VIAS.len())]
    } else if n == 0 {
        LIST_VIAS[g.rng.below(2)]
    } else {
        LIST_VIAS[g.rng.below(4)]
    }
}
const COVT_VIAS_PLAIN: [&str; 9] = ["fn-t", "fn-rt", "fn-v", "fn-rv", "fn-bv", "fn-rbv", "m-t", "m-v", "m-bv"];
const COVT_VIAS_ACCESS: [&str; 6] = ["fn-av", "fn-rav", "fn-bv", "fn-rbv", "m-av", "m-bv"];
const COVT_VIAS_BOXED: [&str; 3] = ["fn-bv", "fn-rbv", "m-bv"];

fn gen_lists(g: &mut Gen) {
    let max = if g.thorough { 12 } else { 6 };
    for e in ["fp", "rat"] {
        g.op(format!("@ {}", e));
        for n in 0..=max {
            for rep in 0..(if g.thorough { 4 } else { 2 }) {
                let v = vals(g, e, n);
                let _ = rep;
                let via = pick_list_via(g, n);
                g.op(format!("mean {} via={}", v, via));
                g.count(&format!("mean.via.{}", via));
                let via = pick_list_via(g, n);
                g.op(format!("variance {} via={}", v, via));
                g.count(&format!("variance.via.{}", via));
                g.count(&format!("list.length={}", n));
                g.count(&format!("list.ety={}", e));
            }
        }
        // every iterator source on the same data: all must give the one answer
        let v = vals(g, e, 5);
        for via in LIST_VIAS.iter().chain(HINT_VIAS.iter()) {
            g.op(format!("mean {} via={}", v, via));
            g.op(format!("variance {} via={}", v, via));
            g.count(&format!("mean.via.{}", via));
            g.count(&format!("variance.via.{}", via));
        }
        for via in HINT_VIAS.iter() {
            g.op(format!("mean - via={}", via));
            g.op(format!("variance - via={}", via));
        }
        // all-equal data (variance 0) and two-point data
        let x = val(g, e);
        g.op(format!("variance {},{},{} via=cloned", x, x, x));
        g.op(format!("mean {},{},{} via=into_iter", x, x, x));
        for _ in 0..(if g.thorough { 40 } else { 10 }) {
            let (p, r) = (val(g, e), val(g, e));
            g.op(format!("f1 {} {}", p, r));
            g.count("f1.random");
        }
        // precision + recall = 0 (the quotient's denominator vanishes)
        if e == "rat" {
            g.op("f1 1/2 -1/2".to_string());
            g.op("f1 0 0".to_string());
        } else {
            g.op(format!("f1 5 {}", P - 5));
            g.op("f1 0 0".to_string());
        }
        g.count_n("f1.zero_denominator", 2);
    }
}

fn gen_cov_case(g: &mut Gen, e: &str, samples: usize, features: usize) {
    g.op(format!("@ {}", e));
    g.count(&format!("cov.samples={}", samples));
    g.count(&format!("cov.features={}", features));
    g.count(&format!("cov.ety={}", e));
    let data: Vec<String> = split_comma(&vals(g, e, samples * features)).iter().map(|x| x.to_string()).collect();
    // samples x features (column features) and its transpose (row features)
    let flat = data.join(",");
    let mut tr = vec![];
    for f in 0..features {
        for s in 0..samples {
            tr.push(data[s * features + f].clone());
        }
    }
    let flat_t = tr.join(",");
    g.op(format!("m M {} {} {}", samples, features, flat));
    g.op(format!("m MT {} {} {}", features, samples, flat_t));
    for via in ["fn", "method"] {
        g.op(format!("covcol M via={}", via));
        g.op(format!("covrow MT via={}", via));
    }
    // the other reading of the same matrices (features and samples exchanged)
    g.op("covrow M via=fn".to_string());
    g.op("covcol MT via=method".to_string());
    // tensors: feature dimension second / first, same data
    // dimension names: the result's own names i / j, plain ones, or adversarial ones (names the
    // library uses internally, substrings of one another, the empty name) - names are opaque
    let adv = adversarial_names(&mut g.rng, 2);
    let (sn, fname) = if g.rng.chance(1, 3) {
        g.count("cov.names.adversarial");
        (adv[0], adv[1])
    } else if g.rng.chance(1, 4) { ("i", "j") } else if g.rng.chance(1, 3) { ("j", "i") } else { ("s", "f") };
    g.op(format!("t T {}:{},{}:{} {}", sn, samples, fname, features, flat));
    g.op(format!("t TT {}:{},{}:{} {}", fname, features, sn, samples, flat_t));
    for name in ["T", "TT"] {
        for via in COVT_VIAS_PLAIN {
            if g.thorough || g.rng.chance(1, 2) {
                g.op(format!("covt {} {} via={}", name, fname, via));
                g.count(&format!("covt.via.{}", via));
                g.count(if name == "T" { "covt.feature_second" } else { "covt.feature_first" });
            }
        }
    }
    // the other dimension as the feature dimension
    g.op(format!("covt T {} via=fn-rt", sn));
    g.op(format!("covt TT {} via=m-t", sn));
    // a name that is not in the shape
    let k = g.rng.below(9);
    g.op(format!("covt T zz via={}", COVT_VIAS_PLAIN[k]));
    g.count("covt.unknown_feature_name");
    // view inputs whose iteration order differs from their storage order
    g.op(format!("v VA T access {},{}", fname, sn));
    g.op(format!("v VX TT transpose {},{}", sn, fname));
    g.op(format!("v VR T reverse {}", sn));
    g.op(format!("v VN T rename p,q"));
    for via in COVT_VIAS_ACCESS {
        if g.thorough || g.rng.chance(1, 2) {
            g.op(format!("covt VA {} via={}", fname, via));
            g.count(&format!("covt.view.access.via.{}", via));
        }
    }
    for via in COVT_VIAS_BOXED {
        g.op(format!("covt VX {} via={}", fname, via));
        g.op(format!("covt VR {} via={}", fname, via));
        g.op(format!("covt VN q via={}", via));
        g.op(format!("covt VN p via={}", via));
        g.count_n("covt.view.boxed", 4);
    }
    // Every kind of lazy view of both bases (feature dimension second in T, first in TT), each
    // with either dimension as the feature dimension: lazy reorderings (TensorAccess,
    // TensorTranspose), reversals, renames, ranges and masks of larger bases, and chains of them.
    // The model works on the logical data the view shows.
    let big = samples >= 17;
    let mut views: Vec<(String, &'static str)> = vec![];
    let mut n = 0;
    let mut fresh = |p: &str| { n += 1; format!("{}{}", p, n) };
    for (base, d0, d1, l0, l1) in [("T", sn, fname, samples, features), ("TT", fname, sn, features, samples)] {
        let v = fresh("A");
        g.op(format!("v {} {} access {},{}", v, base, d1, d0));
        views.push((v.clone(), "access"));
        let x = fresh("X");
        g.op(format!("v {} {} transpose {},{}", x, base, d1, d0));
        views.push((x, "transpose"));
        if big && base == "T" {
            continue;
        }
        let r = fresh("R");
        let which = [format!("{}", d0), format!("{}", d1), format!("{},{}", d1, d0)][g.rng.below(3)].clone();
        g.op(format!("v {} {} reverse {}", r, base, which));
        views.push((r, "reverse"));
        let ra = fresh("RA");
        g.op(format!("v {} {} reverse {}", ra, v, d0));
        views.push((ra, "reverse_of_access"));
        // range and mask of a larger base with junk around / inside the data
        let (p0, p1) = (g.rng.below(2) + 1, g.rng.below(2) + 1);
        let (big0, big1) = (l0 + p0 + 1, l1 + p1);
        let junk: Vec<String> = (0..big0 * big1).map(|_| val(g, e)).collect();
        let bname = fresh("B");
        // the data of `base` sits at rows p0.., columns p1.. of the larger tensor
        let base_vals: Vec<String> = if base == "T" { data.clone() } else { tr.clone() };
        let mut bigv = junk.clone();
        for i in 0..l0 {
            for j in 0..l1 {
                bigv[(i + p0) * big1 + (j + p1)] = base_vals[i * l1 + j].clone();
            }
        }
        g.op(format!("t {} {}:{},{}:{} {}", bname, d0, big0, d1, big1, bigv.join(",")));
        let rg = fresh("G");
        g.op(format!("v {} {} range {}:{},{}:{}", rg, bname, p0, l0, p1, l1));
        views.push((rg.clone(), "range"));
        let ga = fresh("GA");
        g.op(format!("v {} {} access {},{}", ga, rg, d1, d0));
        views.push((ga, "access_of_range"));
        // mask: the first p0 rows and the last row, the first p1 columns are hidden in two steps
        let m1 = fresh("M");
        g.op(format!("v {} {} mask 0:{},0:{}", m1, bname, p0, p1));
        let m2 = fresh("M");
        g.op(format!("v {} {} mask {}:1,0:0", m2, m1, l0));
        views.push((m2, "mask"));
    }
    for (i, (v, kind)) in views.iter().enumerate() {
        for feature in [fname, sn] {
            let via = if *kind == "access" { COVT_VIAS_ACCESS[(i + feature.len()) % 6] } else { COVT_VIAS_BOXED[(i + feature.len()) % 3] };
            g.op(format!("covt {} {} via={}", v, feature, via));
            g.count(&format!("covt.view.{}", kind));
        }
    }
}

fn gen_softmax(g: &mut Gen) {
    g.op("@ fp".to_string());
    g.op("softmax - via=into_iter".to_string());
    g.op("softmax - via=cloned".to_string());
    let max_n = if g.thorough { 5 } else { 4 };
    for n in 1..=max_n {
        g.op("@ fp".to_string());
        // n distinct values sorted by the order the code sees (signed representative); three
        // pools: random signs, all negative, all non-negative (a maximum computed from a wrong
        // starting value, e.g. zero, shows only when every input lies on one side of it)
        for sign in ["mixed", "negative", "nonnegative"] {
            let mut pool: Vec<Fp> = vec![];
            while pool.len() < n {
                let v = Fp::new(g.rng.next() % P);
                let ok = match sign {
                    "negative" => v.signed() < 0,
                    "nonnegative" => v.signed() >= 0,
                    _ => true,
                };
                if ok && !pool.contains(&v) {
                    pool.push(v);
                }
            }
            pool.sort_by(|a, b| a.partial_cmp(b).unwrap());
            // all rank patterns (functions positions -> ranks): every ordering, ties included
            let total = n.pow(n as u32);
            for code in 0..total {
                if sign != "mixed" && n >= 4 && !g.thorough && code % 4 != 0 {
                    continue;
                }
                let mut c = code;
                let mut ranks = vec![];
                for _ in 0..n {
                    ranks.push(c % n);
                    c /= n;
                }
                let v: Vec<String> = ranks.iter().map(|&r| pool[r].0.to_string()).collect();
                let distinct = { let mut r = ranks.clone(); r.sort(); r.dedup(); r.len() };
                let via = if code % 3 == 2 { HINT_VIAS[(code / 3) % HINT_VIAS.len()] } else { LIST_VIAS[code % 4] };
                g.op(format!("softmax {} via={}", v.join(","), via));
                g.count(&format!("softmax.length={}", n));
                g.count(&format!("softmax.signs.{}", sign));
                g.count(if distinct == n { "softmax.all_distinct" } else { "softmax.with_ties" });
            }
        }
    }
    // values around the sign boundary of the order and random longer lists
    g.op("@ fp".to_string());
    let half = P / 2;
    g.op(format!("softmax {},{},{},{} via=cloned", half, half + 1, 0, P - 1));
    for _ in 0..(if g.thorough { 60 } else { 15 }) {
        let n = g.rng.range(5, 9);
        let v = vals(g, "fp", n);
        let via = pick_list_via(g, n);
        g.op(format!("softmax {} via={}", v, via));
        g.count("softmax.random_long");
    }
    // f64 sanity oracle on large magnitudes (finite, non-negative, sums to ~1); never compared
    // with the model beyond the list length
    g.op("@ fp".to_string());
    for v in [
        "1000,1001,999", "-1000,-1001,-999", "1e308,1e308", "-1e308,1e308,0", "710,0,-710", "0,0,0,0",
        "1e-300,2e-300", "745.2,745.1,-745.2", "88.8,-88.8,1e5", "123456789,123456788.5",
    ] {
        g.op(format!("softmax_f64 {}", v));
        g.count("softmax.f64_sanity");
    }
}

/// Element-type axis: every statistic over `Trace<Fp>` (forward mode) and `Record<Fp>` (reverse
/// mode) elements, with constants and variables mixed in every order (constants first, last,
/// interleaved, random, all constants, all variables; a constant as the maximum for softmax).
/// Value and (directional) derivative must equal the model evaluated at dual numbers.
fn gen_ad_elements(g: &mut Gen) {
    const PATTERNS: [&str; 6] = ["const_first", "const_last", "interleaved", "random", "all_const", "all_var"];
    fn elems(g: &mut Gen, n: usize, pattern: &str) -> Vec<String> {
        let k = if n <= 1 { n } else { g.rng.range(1, n - 1) };
        (0..n)
            .map(|i| {
                let v = 1 + g.rng.next() % (P - 1);
                let constant = match pattern {
                    "const_first" => i < k,
                    "const_last" => i >= n - k,
                    "interleaved" => i % 2 == 0,
                    "random" => g.rng.chance(1, 2),
                    "all_const" => true,
                    _ => false,
                };
                if constant { v.to_string() } else { format!("{}~{}", v, 1 + g.rng.next() % (P - 1)) }
            })
            .collect()
    }
    for ety in ["record", "trace"] {
        let list_via = |g: &mut Gen, n: usize| -> &'static str {
            if ety == "record" { ["into_iter", "cloned", "filter"][g.rng.below(3)] } else { pick_list_via(g, n) }
        };
        g.op(format!("@ {}", ety));
        for n in 1..=(if g.thorough { 8 } else { 5 }) {
            for pattern in PATTERNS {
                let v = elems(g, n, pattern).join(",");
                let via = list_via(g, n);
                g.op(format!("mean {} via={}", v, via));
                let via = list_via(g, n);
                g.op(format!("variance {} via={}", v, via));
                let via = list_via(g, n);
                g.op(format!("softmax {} via={}", v, via));
                g.count(&format!("ad.{}.list.{}", ety, pattern));
            }
            // softmax with a constant as the maximum (and as the minimum)
            for which in ["max", "min"] {
                let mut vals: Vec<Fp> = (0..n).map(|_| Fp::new(g.rng.next() % P)).collect();
                vals.sort_by(|a, b| a.partial_cmp(b).unwrap());
                let target = if which == "max" { n - 1 } else { 0 };
                let mut toks: Vec<String> = vals.iter().enumerate().map(|(i, v)| if i == target { v.0.to_string() } else { format!("{}~{}", v.0, 1 + g.rng.next() % (P - 1)) }).collect();
                g.rng.shuffle(&mut toks);
                let via = list_via(g, n);
                g.op(format!("softmax {} via={}", toks.join(","), via));
                g.count(&format!("ad.{}.softmax.constant_is_{}", ety, which));
            }
        }
        g.op("mean - via=into_iter".to_string());
        g.op("softmax - via=cloned".to_string());
        for (p, r) in [(true, false), (false, true), (false, false), (true, true)] {
            let e = |g: &mut Gen, c: bool| { let v = 1 + g.rng.next() % (P - 1); if c { v.to_string() } else { format!("{}~{}", v, 1 + g.rng.next() % (P - 1)) } };
            let (a, b) = (e(g, p), e(g, r));
            g.op(format!("f1 {} {}", a, b));
        }
        // covariance: non-square data, constants in every arrangement, every entry point
        for (samples, features) in [(1usize, 1usize), (2, 3), (3, 2), (4, 3), (5, 2), (3, 4)] {
            for pattern in PATTERNS {
                if !g.thorough && pattern == "all_const" && samples > 2 {
                    continue;
                }
                g.op(format!("@ {}", ety));
                let data = elems(g, samples * features, pattern);
                let mut tr = vec![];
                for f in 0..features {
                    for s_i in 0..samples {
                        tr.push(data[s_i * features + f].clone());
                    }
                }
                g.op(format!("m M {} {} {}", samples, features, data.join(",")));
                g.op(format!("m MT {} {} {}", features, samples, tr.join(",")));
                for via in ["fn", "method"] {
                    g.op(format!("covcol M via={}", via));
                    g.op(format!("covrow MT via={}", via));
                }
                g.op("covrow M via=method".to_string());
                g.op("covcol MT via=fn".to_string());
                g.op(format!("t T s:{},f:{} {}", samples, features, data.join(",")));
                g.op(format!("t TT f:{},s:{} {}", features, samples, tr.join(",")));
                g.op("v A T access f,s".to_string());
                g.op("v B TT access s,f".to_string());
                let plain: &[&str] = if ety == "record" { &["fn-t", "fn-rt", "fn-v", "m-t", "m-v"] } else { &COVT_VIAS_PLAIN };
                let acc: &[&str] = if ety == "record" { &["fn-av", "m-av"] } else { &COVT_VIAS_ACCESS };
                for (i, name) in ["T", "TT"].iter().enumerate() {
                    for feature in ["f", "s"] {
                        let via = plain[(g.rng.below(plain.len()) + i) % plain.len()];
                        g.op(format!("covt {} {} via={}", name, feature, via));
                    }
                }
                for name in ["A", "B"] {
                    for feature in ["f", "s"] {
                        let via = acc[g.rng.below(acc.len())];
                        g.op(format!("covt {} {} via={}", name, feature, via));
                    }
                }
                g.op("covt T zz via=fn-rt".to_string());
                g.count(&format!("ad.{}.cov.{}", ety, pattern));
            }
        }
    }
}

/// API-surface scan: every `pub fn` of linear_algebra.rs in C14's scope and every method wrapper of
/// one of them on Matrix / MatrixView / Tensor / TensorView must be driven by this generator;
/// an undriven one is reported as `surface.UNDRIVEN.<name>` in the input-distribution table.
fn scan_surface(g: &mut Gen) {
    let repo = std::env::var("EASYML_REPO").unwrap_or_else(|_| "/repo".to_string());
    // entry point -> the `via=` / op that drives it
    let driven: [(&str, &str); 11] = [
        ("linear_algebra::mean", "mean"),
        ("linear_algebra::variance", "variance"),
        ("linear_algebra::softmax", "softmax"),
        ("linear_algebra::f1_score", "f1"),
        ("linear_algebra::covariance_column_features", "covcol via=fn"),
        ("linear_algebra::covariance_row_features", "covrow via=fn"),
        ("linear_algebra::covariance", "covt via=fn-*"),
        ("matrices/mod.rs::covariance_column_features", "covcol via=method"),
        ("matrices/mod.rs::covariance_row_features", "covrow via=method"),
        ("tensors/mod.rs::covariance", "covt via=m-t"),
        ("tensors/views.rs::covariance", "covt via=m-v / m-bv / m-av"),
    ];
    let in_scope = |name: &str| name == "mean" || name == "variance" || name == "softmax" || name == "f1_score" || name.starts_with("covariance");
    let mut found: Vec<String> = vec![];
    for (file, prefix) in [
        ("src/linear_algebra.rs", "linear_algebra"),
        ("src/matrices/mod.rs", "matrices/mod.rs"),
        ("src/matrices/views.rs", "matrices/views.rs"),
        ("src/tensors/mod.rs", "tensors/mod.rs"),
        ("src/tensors/views.rs", "tensors/views.rs"),
    ] {
        let text = match std::fs::read_to_string(format!("{}/{}", repo, file)) {
            Ok(t) => t,
            Err(_) => { g.count(&format!("surface.unreadable.{}", prefix)); continue; }
        };
        for line in text.lines() {
            let l = line.trim_start();
            if let Some(rest) = l.strip_prefix("pub fn ") {
                let name: String = rest.chars().take_while(|c| c.is_alphanumeric() || *c == '_').collect();
                if in_scope(&name) {
                    found.push(format!("{}::{}", prefix, name));
                }
            }
        }
    }
    for f in &found {
        if driven.iter().any(|(d, _)| d == f) {
            g.count(&format!("surface.driven.{}", f));
        } else {
            g.count(&format!("surface.UNDRIVEN.{}", f));
        }
    }
    for (d, _) in driven.iter() {
        if !found.contains(&d.to_string()) {
            g.count(&format!("surface.driven_but_not_found.{}", d));
        }
    }
}

pub fn gen(g: &mut Gen) {
    gen_lists(g);
    let (ms, mf) = if g.thorough { (10, 7) } else { (5, 4) };
    for s in 1..=ms {
        for f in 1..=mf {
            gen_cov_case(g, "fp", s, f);
            if g.thorough || g.rng.chance(1, 2) {
                gen_cov_case(g, "rat", s, f);
            }
        }
    }
    gen_softmax(g);
    gen_large(g);
    gen_ad_elements(g);
    scan_surface(g);
}

/// sizes beyond the small exhaustive sweeps (the property quantifies over all sample counts):
/// block / chunk boundaries 16, 17, 31, 32, 33, 64, 65, and a few arbitrary larger counts
fn gen_large(g: &mut Gen) {
    let thorough = g.thorough;
    let all_vias: Vec<&'static str> = LIST_VIAS.iter().chain(HINT_VIAS.iter()).copied().collect();
    for e in ["fp", "rat"] {
        g.op(format!("@ {}", e));
        let mut counts = vec![16usize, 17, 31, 32, 33, 48, 64, 65, 70];
        if thorough {
            counts.extend([15, 18, 47, 49, 63, 96, 100, 127, 128, 129, 200]);
        }
        for n in counts {
            for rep in 0..2 {
                let v = vals(g, e, n);
                let via = all_vias[(n + rep) % all_vias.len()];
                g.op(format!("mean {} via={}", v, via));
                let via = all_vias[(n + rep + 5) % all_vias.len()];
                g.op(format!("variance {} via={}", v, via));
                g.count(&format!("list.length={}", n));
                g.count("list.large");
            }
        }
    }
    // covariance with many samples and up to 9 features
    let mut sizes = vec![(17usize, 9usize), (23, 5), (32, 3), (33, 2), (40, 9), (18, 7)];
    if thorough {
        sizes.extend([(64, 4), (65, 9), (100, 3), (31, 8)]);
    }
    for (i, (s_n, f_n)) in sizes.iter().enumerate() {
        gen_cov_case(g, "fp", *s_n, *f_n);
        if thorough || i % 2 == 0 {
            gen_cov_case(g, "rat", *s_n, *f_n);
        }
        g.count("cov.large");
    }
    // softmax of 9..70 inputs: distinct, heavy ties (values from a pool of 3), all negative
    g.op("@ fp".to_string());
    let mut lens = vec![9usize, 16, 17, 33, 64, 70];
    if thorough {
        lens.extend([31, 32, 65, 128, 200]);
    }
    for n in lens {
        for kind in ["distinct", "ties", "negative", "negative_ties"] {
            let pool_n = if kind.ends_with("ties") { 3 } else { n };
            let mut pool: Vec<Fp> = vec![];
            while pool.len() < pool_n {
                let v = Fp::new(g.rng.next() % P);
                if (!kind.starts_with("negative") || v.signed() < 0) && !pool.contains(&v) {
                    pool.push(v);
                }
            }
            let v: Vec<String> = (0..n)
                .map(|i| if kind.ends_with("ties") { pool[g.rng.below(3)].0.to_string() } else { pool[i].0.to_string() })
                .collect();
            let via = all_vias[(n + kind.len()) % all_vias.len()];
            g.op(format!("softmax {} via={}", v.join(","), via));
            g.count(&format!("softmax.length={}", n));
            g.count(&format!("softmax.large.{}", kind));
        }
    }
}

// ---------------------------------------------------------------------------------------------
// execution against the implementation
// ---------------------------------------------------------------------------------------------

/// `data` through the iterator of a lazy tensor view that shows it in its logical order although
/// the storage holds it reversed / padded / with a hole / in another dimension order
fn view_iter_apply<T: Clone + 'static, R>(
    data: Vec<T>,
    via: &str,
    junk: T,
    f: impl FnOnce(&mut dyn Iterator<Item = T>) -> R,
) -> R {
    let n = data.len();
    if n == 0 {
        return f(&mut data.into_iter());
    }
    match via {
        "rev_view" => {
            let stored: Vec<T> = data.into_iter().rev().collect();
            let t = Tensor::from([("x", n)], stored);
            let v = TensorView::from(TensorReverse::from(&t, &["x"]));
            let r = f(&mut v.iter());
            r
        }
        "range_view" => {
            let mut stored = vec![junk.clone(), junk.clone()];
            stored.extend(data);
            stored.push(junk);
            let t = Tensor::from([("x", n + 3)], stored);
            let v = TensorView::from(TensorRange::from_all(&t, [Some((2, n))]).expect("range"));
            let r = f(&mut v.iter());
            r
        }
        "mask_view" => {
            let h = n / 2;
            let mut stored: Vec<T> = data[..h].to_vec();
            stored.push(junk.clone());
            stored.push(junk);
            stored.extend_from_slice(&data[h..]);
            let t = Tensor::from([("x", n + 2)], stored);
            let v = TensorView::from(TensorMask::from_all(&t, [Some((h, 2))]).expect("mask"));
            let r = f(&mut v.iter());
            r
        }
        "reorder_view" if n % 2 == 0 => {
            // storage [d0, d2, d4, …, d1, d3, …] as a:2 x b:n/2, read in the order (b, a)
            let m = n / 2;
            let mut stored = vec![];
            for a in 0..2 {
                for b in 0..m {
                    stored.push(data[b * 2 + a].clone());
                }
            }
            let t = Tensor::from([("a", 2), ("b", m)], stored);
            let v = TensorView::from(TensorAccess::from(&t, ["b", "a"]));
            let r = f(&mut v.iter());
            r
        }
        _ => {
            let t = Tensor::from([("a", 1), ("b", n)], data);
            let v = TensorView::from(TensorAccess::from(&t, ["b", "a"]));
            let r = f(&mut v.iter());
            r
        }
    }
}

fn is_view_via(via: &str) -> bool {
    matches!(via, "rev_view" | "range_view" | "mask_view" | "access_view" | "reorder_view")
}

/// an iterator over a `Vec` that reports a chosen `size_hint`
struct Hinted<T> {
    inner: std::vec::IntoIter<T>,
    loose: Option<usize>,
}
impl<T> Iterator for Hinted<T> {
    type Item = T;
    fn next(&mut self) -> Option<T> {
        self.inner.next()
    }
    fn size_hint(&self) -> (usize, Option<usize>) {
        match self.loose {
            None => (0, None),
            Some(extra) => (0, Some(self.inner.len() + extra)),
        }
    }
}

/// `data` through an iterator whose `size_hint` is not its exact length (`junk` elements are
/// interleaved and removed again by the adaptor)
fn inexact_iter<T: Clone + 'static>(data: Vec<T>, via: &str, junk: T) -> Box<dyn Iterator<Item = T>> {
    let tagged = |keep: bool, v: Vec<T>| v.into_iter().map(move |x| (keep, x));
    match via {
        "filter" => {
            let mut all: Vec<(bool, T)> = vec![(false, junk.clone())];
            for x in data {
                all.push((true, x));
                all.push((false, junk.clone()));
            }
            Box::new(all.into_iter().filter(|p| p.0).map(|p| p.1))
        }
        "filter_map" => {
            let mut all: Vec<Option<T>> = vec![];
            for x in data {
                all.push(None);
                all.push(Some(x));
            }
            all.push(None);
            all.push(None);
            Box::new(all.into_iter().filter_map(|p| p))
        }
        "take_while" => {
            let tail = vec![junk.clone(), junk.clone(), junk];
            Box::new(tagged(true, data).chain(tagged(false, tail)).take_while(|p| p.0).map(|p| p.1))
        }
        "skip_while" => {
            let head = vec![junk.clone(), junk];
            Box::new(tagged(false, head).chain(tagged(true, data)).skip_while(|p| !p.0).map(|p| p.1))
        }
        "chain" => {
            let mut a = data;
            let b = a.split_off(a.len() / 2);
            Box::new(a.into_iter().chain(b.into_iter()))
        }
        "chain_filter" => {
            let mut a = data;
            let b = a.split_off(a.len() / 2);
            let junk2 = junk.clone();
            Box::new(
                tagged(true, a)
                    .chain(std::iter::once((false, junk)))
                    .chain(tagged(true, b))
                    .chain(std::iter::once((false, junk2)))
                    .filter(|p| p.0)
                    .map(|p| p.1),
            )
        }
        "nohint" => Box::new(Hinted { inner: data.into_iter(), loose: None }),
        "loosehint" => Box::new(Hinted { inner: data.into_iter(), loose: Some(7) }),
        other => panic!("unknown via {}", other),
    }
}

fn show_value<T: Elem>(r: Result<T, PanicKind>) -> String {
    match r {
        Ok(v) => format!("value={}", v.show()),
        Err(k) => panic_str(k),
    }
}
fn show_list<T: Elem>(v: &[T]) -> String {
    if v.is_empty() { "-".into() } else { v.iter().map(|x| x.show()).collect::<Vec<_>>().join(",") }
}

macro_rules! stats_for {
    ($modname:ident, $T:ty, $env:ident) => {
        mod $modname {
            use super::*;
            type T = $T;
            use crate::c03::$env::{AnyT, Env};

            fn parse_list(s: &str) -> Vec<T> {
                split_comma(s).iter().map(|x| <T as Elem>::parse(x)).collect()
            }

            /// feeds the list to `f` through one of several iterator sources
            fn with_list<R>(data: Vec<T>, via: &str, f: impl FnOnce(&mut dyn Iterator<Item = T>) -> R) -> R {
                match via {
                    "into_iter" => f(&mut data.into_iter()),
                    "cloned" => f(&mut data.iter().cloned()),
                    "matrix_column" => {
                        let n = data.len();
                        let m = Matrix::from_flat_row_major((n, 1), data);
                        let r = f(&mut m.column_iter(0));
                        r
                    }
                    "tensor_iter" => {
                        let n = data.len();
                        let t = Tensor::from([("x", n)], data);
                        let r = f(&mut t.iter());
                        r
                    }
                    other if is_view_via(other) => view_iter_apply(data, other, <T as Elem>::parse("7"), f),
                    other => {
                        let mut it = inexact_iter(data, other, <T as Elem>::parse("7"));
                        f(&mut *it)
                    }
                }
            }

            pub fn step(env: &mut Env, toks: &[&str]) -> String {
                match toks {
                    ["mean", vals, rest @ ..] => {
                        let via = opt_arg("via", rest).unwrap_or("into_iter");
                        let data = parse_list(vals);
                        show_value(catch(|| with_list(data, via, |it| linear_algebra::mean::<_, T>(it))))
                    }
                    ["variance", vals, rest @ ..] => {
                        let via = opt_arg("via", rest).unwrap_or("into_iter");
                        let data = parse_list(vals);
                        show_value(catch(|| with_list(data, via, |it| linear_algebra::variance::<_, T>(it))))
                    }
                    [op @ ("covcol" | "covrow"), name, rest @ ..] => {
                        let via = opt_arg("via", rest).unwrap_or("fn");
                        let m = match env.matrix(name) {
                            Some(o) => o.plain(),
                            None => return "no-operand".into(),
                        };
                        let r = catch(|| match (*op, via) {
                            ("covcol", "fn") => linear_algebra::covariance_column_features::<T>(&m),
                            ("covcol", _) => m.covariance_column_features(),
                            ("covrow", "fn") => linear_algebra::covariance_row_features::<T>(&m),
                            (_, _) => m.covariance_row_features(),
                        });
                        match r {
                            Ok(c) => {
                                let (rows, cols) = c.size();
                                format!("size={}x{} data={}", rows, cols, show_list(&c.row_major_iter().collect::<Vec<T>>()))
                            }
                            Err(k) => panic_str(k),
                        }
                    }
                    ["covt", name, feature, rest @ ..] => {
                        let via = opt_arg("via", rest).unwrap_or("fn-rt");
                        let f = intern(feature);
                        let o = match env.tensor(name) {
                            Some(AnyT::D2(o)) => o,
                            Some(_) => return "bad-op".into(),
                            None => return "no-operand".into(),
                        };
                        let r: Result<Tensor<T, 2>, PanicKind> = match via {
                            "fn-t" => { let t = o.plain(); catch(|| linear_algebra::covariance::<T, _, _>(t, f)) }
                            "fn-rt" => { let t = o.plain(); catch(|| linear_algebra::covariance::<T, _, _>(&t, f)) }
                            "fn-v" => { let v = TensorView::from(o.plain()); catch(|| linear_algebra::covariance::<T, _, _>(v, f)) }
                            "fn-rv" => { let v = TensorView::from(o.plain()); catch(|| linear_algebra::covariance::<T, _, _>(&v, f)) }
                            "fn-bv" => { let v = TensorView::from(o.boxed()); catch(|| linear_algebra::covariance::<T, _, _>(v, f)) }
                            "fn-rbv" => { let v = TensorView::from(o.boxed()); catch(|| linear_algebra::covariance::<T, _, _>(&v, f)) }
                            "fn-av" => { let v = TensorView::from(o.access()); catch(|| linear_algebra::covariance::<T, _, _>(v, f)) }
                            "fn-rav" => { let v = TensorView::from(o.access()); catch(|| linear_algebra::covariance::<T, _, _>(&v, f)) }
                            "m-t" => { let t = o.plain(); catch(|| t.covariance(f)) }
                            "m-v" => { let v = TensorView::from(o.plain()); catch(|| v.covariance(f)) }
                            "m-bv" => { let v = TensorView::from(o.boxed()); catch(|| v.covariance(f)) }
                            "m-av" => { let v = TensorView::from(o.access()); catch(|| v.covariance(f)) }
                            other => panic!("unknown via {}", other),
                        };
                        match r {
                            Ok(t) => format!("shape={} data={}", show_shape(&t.shape()), show_list(&t.iter().collect::<Vec<T>>())),
                            Err(k) => panic_str(k),
                        }
                    }
                    ["f1", p, r, ..] => {
                        let (p, r) = (<T as Elem>::parse(p), <T as Elem>::parse(r));
                        show_value(catch(|| linear_algebra::f1_score::<T>(p, r)))
                    }
                    _ => env.step(toks),
                }
            }
        }
    };
}

stats_for!(stats_fp, Fp, run_fp);
stats_for!(stats_rat, Rat, run_rat);
stats_for!(stats_trace, Trace<Fp>, run_trace);

fn softmax_fp(vals: &str, via: &str) -> String {
    softmax_any::<Fp>(vals, via, Fp::new(7))
}

fn softmax_any<T: easy_ml::numeric::extra::Real + Elem + 'static>(vals: &str, via: &str, junk: T) -> String {
    let data: Vec<T> = split_comma(vals).iter().map(|x| <T as Elem>::parse(x)).collect();
    let r = catch(|| match via {
        "into_iter" => linear_algebra::softmax(data.into_iter()),
        "cloned" => linear_algebra::softmax(data.iter().cloned()),
        "matrix_column" => {
            let n = data.len();
            let m = Matrix::from_flat_row_major((n, 1), data);
            linear_algebra::softmax(m.column_iter(0))
        }
        "tensor_iter" => {
            let n = data.len();
            let t = Tensor::from([("x", n)], data);
            linear_algebra::softmax(t.iter())
        }
        other if is_view_via(other) => view_iter_apply(data, other, junk, |it| linear_algebra::softmax(it)),
        other => linear_algebra::softmax(inexact_iter(data, other, junk)),
    });
    match r {
        Ok(v) => format!("data={}", show_list(&v)),
        Err(k) => panic_str(k),
    }
}

fn softmax_f64(vals: &str) -> String {
    let data: Vec<f64> = split_comma(vals).iter().map(|x| x.parse::<f64>().expect("f64")).collect();
    let n = data.len();
    match catch(|| linear_algebra::softmax(data.into_iter())) {
        Ok(v) => {
            let finite = v.iter().all(|x| x.is_finite());
            let nonneg = v.iter().all(|x| *x >= 0.0);
            let sum: f64 = v.iter().sum();
            if v.len() == n && finite && nonneg && (sum - 1.0).abs() < 1e-9 {
                format!("sane len={}", n)
            } else {
                format!("insane len={} finite={} nonneg={} sum={}", v.len(), finite, nonneg, sum)
            }
        }
        Err(k) => panic_str(k),
    }
}

// ---------------------------------------------------------------------------------------------
// Record<Fp> elements (reverse mode): one fresh WengertList per operation; operands are kept as
// their definitions and rebuilt on the tape of the operation.  An element `v~d` is a variable with
// seed `d`, a bare `v` a constant (`Record::constant`); an answer element is value ~ directional
// derivative  sum_k seed_k * d(out)/d(x_k).
// ---------------------------------------------------------------------------------------------

#[derive(Clone)]
enum RecDef {
    Matrix(usize, usize, Vec<String>),
    Tensor(Vec<(&'static str, usize)>, Vec<String>),
    Access(String, Vec<&'static str>),
}

#[derive(Default)]
struct RecEnv {
    defs: Vec<(String, RecDef)>,
}

struct Tape<'a> {
    list: &'a WengertList<Fp>,
    inputs: std::cell::RefCell<Vec<(Record<'a, Fp>, Fp)>>,
}

impl<'a> Tape<'a> {
    fn elem(&self, s: &str) -> Record<'a, Fp> {
        match s.split_once('~') {
            Some((v, d)) => {
                let r = Record::variable(<Fp as Elem>::parse(v), self.list);
                self.inputs.borrow_mut().push((r.clone(), <Fp as Elem>::parse(d)));
                r
            }
            None => Record::constant(<Fp as Elem>::parse(s)),
        }
    }
    fn elems(&self, v: &[String]) -> Vec<Record<'a, Fp>> {
        v.iter().map(|s| self.elem(s)).collect()
    }
    fn show(&self, x: &Record<'a, Fp>) -> String {
        let mut acc = Fp(0);
        if let Some(derivatives) = x.try_derivatives() {
            for (input, seed) in self.inputs.borrow().iter() {
                acc = acc + seed * &derivatives[input];
            }
        }
        format!("{}~{}", x.number.0, acc.0)
    }
    fn show_all(&self, v: &[Record<'a, Fp>]) -> String {
        if v.is_empty() { "-".into() } else { v.iter().map(|x| self.show(x)).collect::<Vec<_>>().join(",") }
    }
}

impl RecEnv {
    fn get(&self, n: &str) -> Option<&RecDef> {
        self.defs.iter().find(|(k, _)| k == n).map(|(_, v)| v)
    }

    fn step(&mut self, toks: &[&str]) -> String {
        let strs = |s: &str| -> Vec<String> { split_comma(s).iter().map(|x| x.to_string()).collect() };
        let list = WengertList::new();
        let tape = Tape { list: &list, inputs: std::cell::RefCell::new(vec![]) };
        match toks {
            ["m", name, r, c, vals] => {
                let (r, c): (usize, usize) = (r.parse().unwrap(), c.parse().unwrap());
                let v = strs(vals);
                if r * c != v.len() || v.is_empty() {
                    return "panic(explicit)".into();
                }
                self.defs.insert(0, (name.to_string(), RecDef::Matrix(r, c, v)));
                "ok".into()
            }
            ["t", name, shape, vals] => {
                let shape = parse_shape(shape);
                let v = strs(vals);
                if shape.len() != 2 || shape[0].1 * shape[1].1 != v.len() || v.is_empty() {
                    return "bad-op".into();
                }
                self.defs.insert(0, (name.to_string(), RecDef::Tensor(shape, v)));
                "ok".into()
            }
            ["v", name, src, "access", names] => {
                let names = parse_names(names);
                let shape = match self.get(src) {
                    Some(RecDef::Tensor(shape, _)) => shape.clone(),
                    _ => return "no-operand".into(),
                };
                let out: Vec<(&'static str, usize)> = match names.iter().map(|n| shape.iter().find(|d| d.0 == *n).copied()).collect::<Option<Vec<_>>>() {
                    Some(o) if names.len() == 2 && names[0] != names[1] => o,
                    _ => return "none".into(),
                };
                self.defs.insert(0, (name.to_string(), RecDef::Access(src.to_string(), names)));
                format!("ok shape={}", show_shape(&out))
            }
            ["mean", vals, rest @ ..] => {
                let data = tape.elems(&strs(vals));
                let via = opt_arg("via", rest).unwrap_or("into_iter");
                let r = catch(|| match via {
                    "cloned" => linear_algebra::mean::<_, Record<Fp>>(data.iter().cloned()),
                    "filter" => linear_algebra::mean::<_, Record<Fp>>(data.iter().cloned().filter(|_| true)),
                    _ => linear_algebra::mean::<_, Record<Fp>>(data.into_iter()),
                });
                match r { Ok(x) => format!("value={}", tape.show(&x)), Err(k) => panic_str(k) }
            }
            ["variance", vals, rest @ ..] => {
                let data = tape.elems(&strs(vals));
                let via = opt_arg("via", rest).unwrap_or("into_iter");
                let r = catch(|| match via {
                    "cloned" => linear_algebra::variance::<_, Record<Fp>>(data.iter().cloned()),
                    "filter" => linear_algebra::variance::<_, Record<Fp>>(data.iter().cloned().filter(|_| true)),
                    _ => linear_algebra::variance::<_, Record<Fp>>(data.into_iter()),
                });
                match r { Ok(x) => format!("value={}", tape.show(&x)), Err(k) => panic_str(k) }
            }
            ["softmax", vals, rest @ ..] => {
                let data = tape.elems(&strs(vals));
                let via = opt_arg("via", rest).unwrap_or("into_iter");
                let r = catch(|| match via {
                    "cloned" => linear_algebra::softmax::<_, Record<Fp>>(data.iter().cloned()),
                    "filter" => linear_algebra::softmax::<_, Record<Fp>>(data.iter().cloned().filter(|_| true)),
                    _ => linear_algebra::softmax::<_, Record<Fp>>(data.into_iter()),
                });
                match r { Ok(v) => format!("data={}", tape.show_all(&v)), Err(k) => panic_str(k) }
            }
            ["f1", p, r, ..] => {
                let (p, r) = (tape.elem(p), tape.elem(r));
                match catch(|| linear_algebra::f1_score::<Record<Fp>>(p, r)) { Ok(x) => format!("value={}", tape.show(&x)), Err(k) => panic_str(k) }
            }
            [op @ ("covcol" | "covrow"), name, rest @ ..] => {
                let via = opt_arg("via", rest).unwrap_or("fn");
                let (r, c, v) = match self.get(name) {
                    Some(RecDef::Matrix(r, c, v)) => (*r, *c, v.clone()),
                    _ => return "no-operand".into(),
                };
                let m = Matrix::from_flat_row_major((r, c), tape.elems(&v));
                let res = catch(|| match (*op, via) {
                    ("covcol", "fn") => linear_algebra::covariance_column_features::<Record<Fp>>(&m),
                    ("covcol", _) => m.covariance_column_features(),
                    ("covrow", "fn") => linear_algebra::covariance_row_features::<Record<Fp>>(&m),
                    (_, _) => m.covariance_row_features(),
                });
                match res {
                    Ok(c) => {
                        let (rows, cols) = c.size();
                        format!("size={}x{} data={}", rows, cols, tape.show_all(&c.row_major_iter().collect::<Vec<_>>()))
                    }
                    Err(k) => panic_str(k),
                }
            }
            ["covt", name, feature, rest @ ..] => {
                let via = opt_arg("via", rest).unwrap_or("fn-rt");
                let f = intern(feature);
                let (shape, v, access) = match self.get(name) {
                    Some(RecDef::Tensor(shape, v)) => (shape.clone(), v.clone(), None),
                    Some(RecDef::Access(src, names)) => match self.get(src) {
                        Some(RecDef::Tensor(shape, v)) => (shape.clone(), v.clone(), Some(names.clone())),
                        _ => return "no-operand".into(),
                    },
                    _ => return "no-operand".into(),
                };
                let t = Tensor::from([shape[0], shape[1]], tape.elems(&v));
                let res: Result<Tensor<Record<Fp>, 2>, PanicKind> = match (&access, via) {
                    (None, "fn-t") => catch(|| linear_algebra::covariance::<Record<Fp>, _, _>(t, f)),
                    (None, "fn-v") => catch(|| linear_algebra::covariance::<Record<Fp>, _, _>(TensorView::from(&t), f)),
                    (None, "m-t") => catch(|| t.covariance(f)),
                    (None, "m-v") => catch(|| TensorView::from(&t).covariance(f)),
                    (None, _) => catch(|| linear_algebra::covariance::<Record<Fp>, _, _>(&t, f)),
                    (Some(n), "m-av") => catch(|| TensorView::from(TensorAccess::from(&t, [n[0], n[1]])).covariance(f)),
                    (Some(n), _) => catch(|| linear_algebra::covariance::<Record<Fp>, _, _>(TensorView::from(TensorAccess::from(&t, [n[0], n[1]])), f)),
                };
                match res {
                    Ok(c) => format!("shape={} data={}", show_shape(&c.shape()), tape.show_all(&c.iter().collect::<Vec<_>>())),
                    Err(k) => panic_str(k),
                }
            }
            _ => "bad-op".into(),
        }
    }
}

enum Case {
    None,
    Fp(run_fp::Env),
    Rat(run_rat::Env),
    Trace(run_trace::Env),
    Record(RecEnv),
}

pub struct Runner {
    case: Case,
}

impl Runner {
    pub fn new() -> Runner {
        Runner { case: Case::None }
    }

    pub fn step(&mut self, toks: &[&str]) -> String {
        match toks {
            ["@", "fp"] => { self.case = Case::Fp(Default::default()); "ok".into() }
            ["@", "rat"] => { self.case = Case::Rat(Default::default()); "ok".into() }
            ["@", "trace"] => { self.case = Case::Trace(Default::default()); "ok".into() }
            ["@", "record"] => { self.case = Case::Record(Default::default()); "ok".into() }
            ["softmax_f64", vals, ..] => softmax_f64(vals),
            _ => match &mut self.case {
                Case::None => "no-case".into(),
                Case::Fp(e) => match toks {
                    ["softmax", vals, rest @ ..] => softmax_fp(vals, opt_arg("via", rest).unwrap_or("into_iter")),
                    _ => stats_fp::step(e, toks),
                },
                Case::Rat(e) => stats_rat::step(e, toks),
                Case::Trace(e) => match toks {
                    ["softmax", vals, rest @ ..] => softmax_any::<Trace<Fp>>(vals, opt_arg("via", rest).unwrap_or("into_iter"), Trace::constant(Fp::new(7))),
                    _ => stats_trace::step(e, toks),
                },
                Case::Record(e) => e.step(toks),
            },
        }
    }
}
