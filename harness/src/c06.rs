//! C06 — correspondence driver (stub: not built yet).

use crate::util::*;

pub fn gen(_g: &mut Gen) {}

pub struct Runner;

impl Runner {
    pub fn new() -> Runner {
        Runner
    }

    pub fn step(&mut self, _toks: &[&str]) -> String {
        "unimplemented".into()
    }
}
