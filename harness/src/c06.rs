//! C06 — record containers (`RecordTensor`, `RecordMatrix`) against the container model, and
//! against the same computation done with scalar `Record`s in this harness (`scalar=ok`).
//! Also the container part of C15: cross-tape pairings of every container binary operation,
//! container `reset` / tape `clear` cycles.
//!
//! Line protocol: lean/Driver/C06.lean.  Generator: c06/gen.rs.
//!
//! Every named container is stored owned (`Tensor` / `Matrix` source).  An operand `name/<view>`
//! is turned, for the one operation, into a container over another source kind: `&RecordTensor`
//! (`ref`), `TensorAccess` (`acc`), `TensorTranspose` (`tr`), `TensorRange` / `MatrixRange` (`rg`),
//! `TensorReverse` / `MatrixReverse` (`rev`); assigning operations get the `&mut` versions and
//! write through.  The scalar mirror keeps, per container, one `Record` per element on *shadow*
//! tapes (one per tape of the case, cleared together with it) and repeats every operation element
//! by element in row-major order of the view.

use crate::c04::{binary_fn, show_list, three, two, unary_fn, El, Rc, TapeBox, F1, F2};
use crate::exact::{Fp, Rat};
use crate::util::*;
use easy_ml::differentiation::record_operations::SwappedOperations;
use easy_ml::differentiation::{Derivatives, Index, Primitive, Record, RecordMatrix, RecordTensor, WengertList};
use easy_ml::matrices::views::{MatrixMut, MatrixRange, MatrixRef, MatrixReverse, MatrixView, NoInteriorMutability, Reverse};
use easy_ml::matrices::Matrix;
use easy_ml::numeric::extra::{Cos, Exp, Ln, Pow, Sin, Sqrt};
use easy_ml::numeric::{FromUsize, Numeric, NumericRef, ZeroOne};
use easy_ml::tensors::indexing::{TensorAccess, TensorTranspose};
use easy_ml::tensors::views::{TensorMut, TensorRange, TensorRef, TensorReverse, TensorView};
use easy_ml::tensors::{Dimension, Tensor};
use std::collections::HashMap;

#[path = "c06_gen.rs"]
mod gen_impl;
pub use gen_impl::gen;
#[path = "c06_api.rs"]
pub mod api;
use api::{complain, hit, hit_op};

pub type RT<T, const D: usize> = RecordTensor<'static, T, Tensor<(T, Index), D>, D>;
pub type RM<T> = RecordMatrix<'static, T, Matrix<(T, Index)>>;
pub type Sh = Vec<(&'static str, usize)>;

const RT_: &str = "RecordTensor<T,S,D>";
const RM_: &str = "RecordMatrix<T,S>";
const CLONE_: &str = "impl~Clone~for~RecordContainer<T,S,D>::clone";
const HISTORY_: &str = "RecordContainer<T,S,D>::history";

fn hit2(cont: &str, method: &str) {
    hit(&format!("{}::{}", cont, method));
}

/// `RecordTensor::from_existing`, recorded
fn rt_from_existing<T, S, const D: usize>(h: Option<&'static WengertList<T>>, v: TensorView<(T, Index), S, D>) -> RecordTensor<'static, T, S, D>
where
    T: Numeric + Primitive,
    S: TensorRef<(T, Index), D>,
{
    hit("RecordTensor<T,S,D>::from_existing");
    RecordTensor::from_existing(h, v)
}

/// `RecordMatrix::from_existing`, recorded
fn rm_from_existing<T, S>(h: Option<&'static WengertList<T>>, v: MatrixView<(T, Index), S>) -> RecordMatrix<'static, T, S>
where
    T: Numeric + Primitive,
    S: MatrixRef<(T, Index)> + NoInteriorMutability,
{
    hit("RecordMatrix<T,S>::from_existing");
    RecordMatrix::from_existing(h, v)
}

/// an iterator emptied step by step: `len()` / `size_hint()` are exact at every step and the
/// iterator stays empty (`FusedIterator`)
fn drain_checked<I: ExactSizeIterator>(mut it: I, what: &str) -> Vec<I::Item> {
    let n = it.len();
    if it.size_hint() != (n, Some(n)) {
        complain(format!("{}:size_hint-differs-from-len", what));
    }
    let mut out = vec![];
    while let Some(x) = it.next() {
        out.push(x);
        let left = n - out.len().min(n);
        if it.len() != left || it.size_hint() != (left, Some(left)) {
            complain(format!("{}:len-not-exact-after-{}-of-{}", what, out.len(), n));
        }
    }
    if it.next().is_some() || it.len() != 0 {
        complain(format!("{}:not-fused", what));
    }
    out
}

// ---------------------------------------------------------------------------------------------
// views
// ---------------------------------------------------------------------------------------------

#[derive(Clone, Debug, PartialEq)]
pub enum ViewSpec {
    Own,
    Ref,
    Acc(Vec<usize>),
    Tr(Vec<usize>),
    Rg(Vec<(usize, usize)>),
    Rev(Vec<bool>),
    /// `rename_view` (tensors): the same elements under other dimension names
    Rn(Vec<&'static str>),
}

impl ViewSpec {
    /// built from an owned copy: not available for the assigning operations
    pub fn is_shared_only(&self) -> bool {
        matches!(self, ViewSpec::Rn(_))
    }
    /// the owned container itself or a plain borrow of it
    pub fn is_basic(&self) -> bool {
        matches!(self, ViewSpec::Own | ViewSpec::Ref)
    }
}

pub fn parse_view(s: &str) -> Option<ViewSpec> {
    let parts: Vec<&str> = s.split('.').collect();
    let nums = |p: &[&str]| p.iter().map(|x| x.parse::<usize>().ok()).collect::<Option<Vec<usize>>>();
    match parts[0] {
        "ref" if parts.len() == 1 => Some(ViewSpec::Ref),
        "acc" => nums(&parts[1..]).map(ViewSpec::Acc),
        "tr" => nums(&parts[1..]).map(ViewSpec::Tr),
        "rg" => parts[1..]
            .iter()
            .map(|r| {
                let (a, b) = r.split_once('+')?;
                Some((a.parse().ok()?, b.parse().ok()?))
            })
            .collect::<Option<Vec<(usize, usize)>>>()
            .map(ViewSpec::Rg),
        "rn" => Some(ViewSpec::Rn(parts[1..].iter().map(|n| intern(n)).collect())),
        "rev" => parts[1..]
            .iter()
            .map(|f| match *f {
                "1" => Some(true),
                "0" => Some(false),
                _ => None,
            })
            .collect::<Option<Vec<bool>>>()
            .map(ViewSpec::Rev),
        _ => None,
    }
}

pub fn parse_operand(tok: &str) -> Option<(&str, ViewSpec)> {
    match tok.split_once('/') {
        None => Some((tok, ViewSpec::Own)),
        Some((n, v)) => parse_view(v).map(|v| (n, v)),
    }
}

pub fn show_view(v: &ViewSpec) -> String {
    let join = |xs: Vec<String>| xs.join(".");
    match v {
        ViewSpec::Own => String::new(),
        ViewSpec::Ref => "/ref".into(),
        ViewSpec::Acc(p) => format!("/acc.{}", join(p.iter().map(|x| x.to_string()).collect())),
        ViewSpec::Tr(p) => format!("/tr.{}", join(p.iter().map(|x| x.to_string()).collect())),
        ViewSpec::Rg(r) => format!("/rg.{}", join(r.iter().map(|(a, b)| format!("{}+{}", a, b)).collect())),
        ViewSpec::Rev(f) => format!("/rev.{}", join(f.iter().map(|b| if *b { "1".to_string() } else { "0".to_string() }).collect())),
        ViewSpec::Rn(n) => format!("/rn.{}", n.join(".")),
    }
}

fn strides(shape: &[(&'static str, usize)]) -> Vec<usize> {
    (0..shape.len()).map(|d| shape[d + 1..].iter().map(|x| x.1).product()).collect()
}

fn all_indexes(lens: &[usize]) -> Vec<Vec<usize>> {
    let mut out = vec![vec![]];
    for &l in lens {
        let mut next = vec![];
        for prefix in &out {
            for i in 0..l {
                let mut p = prefix.clone();
                p.push(i);
                next.push(p);
            }
        }
        out = next;
    }
    out
}

fn is_perm(p: &[usize], d: usize) -> bool {
    p.len() == d && (0..d).all(|k| p.contains(&k))
}

/// The shape a view shows and, per view element in row-major order, the offset of the element in
/// the owned (row-major) container.  `None`: not a view of this shape.
pub fn view_of(shape: &[(&'static str, usize)], spec: &ViewSpec, is_matrix: bool) -> Option<(Sh, Vec<usize>)> {
    let st = strides(shape);
    let d = shape.len();
    let dot = |a: &[usize], b: &[usize]| a.iter().zip(b).map(|(x, y)| x * y).sum::<usize>();
    match spec {
        ViewSpec::Own | ViewSpec::Ref => Some((shape.to_vec(), (0..shape.iter().map(|x| x.1).product()).collect())),
        ViewSpec::Acc(p) | ViewSpec::Tr(p) => {
            if is_matrix || !is_perm(p, d) {
                return None;
            }
            let lens: Vec<usize> = p.iter().map(|&k| shape[k].1).collect();
            let pst: Vec<usize> = p.iter().map(|&k| st[k]).collect();
            let vshape: Sh = match spec {
                ViewSpec::Acc(_) => p.iter().map(|&k| shape[k]).collect(),
                _ => (0..d).map(|k| (shape[k].0, lens[k])).collect(),
            };
            Some((vshape, all_indexes(&lens).iter().map(|i| dot(i, &pst)).collect()))
        }
        ViewSpec::Rg(r) => {
            if r.len() != d || !(0..d).all(|k| r[k].1 >= 1 && r[k].0 + r[k].1 <= shape[k].1) {
                return None;
            }
            let lens: Vec<usize> = r.iter().map(|x| x.1).collect();
            let base = dot(&r.iter().map(|x| x.0).collect::<Vec<_>>(), &st);
            let vshape: Sh = (0..d).map(|k| (shape[k].0, lens[k])).collect();
            Some((vshape, all_indexes(&lens).iter().map(|i| base + dot(i, &st)).collect()))
        }
        ViewSpec::Rn(n) => {
            if is_matrix || n.len() != d {
                return None;
            }
            Some(((0..d).map(|k| (n[k], shape[k].1)).collect(), (0..shape.iter().map(|x| x.1).product()).collect()))
        }
        ViewSpec::Rev(f) => {
            if f.len() != d {
                return None;
            }
            let lens: Vec<usize> = shape.iter().map(|x| x.1).collect();
            Some((
                shape.to_vec(),
                all_indexes(&lens)
                    .iter()
                    .map(|i| dot(&(0..d).map(|k| if f[k] { lens[k] - 1 - i[k] } else { i[k] }).collect::<Vec<_>>(), &st))
                    .collect(),
            ))
        }
    }
}

/// `$v` is bound to a container over the requested source kind, built from `&RT<T, D>`.
macro_rules! tview {
    ($D:literal, $base:expr, $spec:expr, $v:ident => $body:expr) => {{
        let base = $base;
        hit(HISTORY_);
        let h = base.history();
        hit("RecordTensor<T,S,D>::shape");
        let shape = base.shape();
        match $spec {
            ViewSpec::Own => {
                hit(CLONE_);
                let $v = base.clone();
                $body
            }
            ViewSpec::Ref => {
                let $v = rt_from_existing(h, TensorView::from(base));
                $body
            }
            ViewSpec::Acc(p) => {
                let dims: [Dimension; $D] = std::array::from_fn(|k| shape[p[k]].0);
                // `index()` for the source order, `index_by` otherwise
                let access = if (0..$D).all(|k| p[k] == k) {
                    hit("RecordTensor<T,S,D>::index");
                    base.index()
                } else {
                    hit("RecordTensor<T,S,D>::index_by");
                    base.index_by(dims)
                };
                let $v = rt_from_existing(h, TensorView::from(access));
                $body
            }
            ViewSpec::Rn(n) => {
                let dims: [Dimension; $D] = std::array::from_fn(|k| n[k]);
                hit("RecordTensor<T,S,D>::rename_view");
                let $v = base.clone().rename_view(dims);
                $body
            }
            ViewSpec::Tr(p) => {
                let dims: [Dimension; $D] = std::array::from_fn(|k| shape[p[k]].0);
                let $v = rt_from_existing(h, TensorView::from(TensorTranspose::from(base, dims)));
                $body
            }
            ViewSpec::Rg(r) => {
                let ranges: [Option<std::ops::Range<usize>>; $D] = std::array::from_fn(|k| Some(r[k].0..r[k].0 + r[k].1));
                let $v = rt_from_existing(h, TensorView::from(TensorRange::from_all(base, ranges).expect("range")));
                $body
            }
            ViewSpec::Rev(f) => {
                let names: Vec<Dimension> = (0..$D).filter(|&k| f[k]).map(|k| shape[k].0).collect();
                let $v = rt_from_existing(h, TensorView::from(TensorReverse::from(base, &names)));
                $body
            }
        }
    }};
}

/// The same over `&mut RT<T, D>`; `$body` evaluates to `Result<container, PanicKind>`.  With the
/// owned spec the operation runs on a copy which replaces the stored container on success;
/// with a view the writes have gone through.
macro_rules! tview_mut {
    ($D:literal, $base:expr, $spec:expr, $v:ident => $body:expr) => {{
        let base = $base;
        hit(HISTORY_);
        let h = base.history();
        hit("RecordTensor<T,S,D>::shape");
        let shape = base.shape();
        match $spec {
            ViewSpec::Own => {
                hit(CLONE_);
                let $v = base.clone();
                let r = $body;
                r.map(|n| {
                    *base = n;
                })
            }
            ViewSpec::Ref => {
                let $v = rt_from_existing(h, TensorView::from(&mut *base));
                let r = $body;
                r.map(|_| ())
            }
            ViewSpec::Acc(p) => {
                let dims: [Dimension; $D] = std::array::from_fn(|k| shape[p[k]].0);
                let $v = rt_from_existing(h, TensorView::from(TensorAccess::from(&mut *base, dims)));
                let r = $body;
                r.map(|_| ())
            }
            ViewSpec::Tr(p) => {
                let dims: [Dimension; $D] = std::array::from_fn(|k| shape[p[k]].0);
                let $v = rt_from_existing(h, TensorView::from(TensorTranspose::from(&mut *base, dims)));
                let r = $body;
                r.map(|_| ())
            }
            ViewSpec::Rg(r_) => {
                let ranges: [Option<std::ops::Range<usize>>; $D] = std::array::from_fn(|k| Some(r_[k].0..r_[k].0 + r_[k].1));
                let $v = rt_from_existing(h, TensorView::from(TensorRange::from_all(&mut *base, ranges).expect("range")));
                let r = $body;
                r.map(|_| ())
            }
            ViewSpec::Rev(f) => {
                let names: Vec<Dimension> = (0..$D).filter(|&k| f[k]).map(|k| shape[k].0).collect();
                let $v = rt_from_existing(h, TensorView::from(TensorReverse::from(&mut *base, &names)));
                let r = $body;
                r.map(|_| ())
            }
            ViewSpec::Rn(_) => unreachable!("harness: rename_view is not a mutable view"),
        }
    }};
}

macro_rules! mview {
    ($base:expr, $spec:expr, $v:ident => $body:expr) => {{
        let base = $base;
        hit(HISTORY_);
        let h = base.history();
        match $spec {
            ViewSpec::Own => {
                hit(CLONE_);
                let $v = base.clone();
                $body
            }
            ViewSpec::Ref => {
                let $v = rm_from_existing(h, MatrixView::from(base));
                $body
            }
            ViewSpec::Rg(r) => {
                let $v = rm_from_existing(
                    h,
                    MatrixView::from(MatrixRange::from(base, r[0].0..r[0].0 + r[0].1, r[1].0..r[1].0 + r[1].1)),
                );
                $body
            }
            ViewSpec::Rev(f) => {
                let $v = rm_from_existing(
                    h,
                    MatrixView::from(MatrixReverse::from(base, Reverse { rows: f[0], columns: f[1] })),
                );
                $body
            }
            _ => panic!("harness: view kind not available for matrices"),
        }
    }};
}

macro_rules! mview_mut {
    ($base:expr, $spec:expr, $v:ident => $body:expr) => {{
        let base = $base;
        hit(HISTORY_);
        let h = base.history();
        match $spec {
            ViewSpec::Own => {
                hit(CLONE_);
                let $v = base.clone();
                let r = $body;
                r.map(|n| {
                    *base = n;
                })
            }
            ViewSpec::Ref => {
                let $v = rm_from_existing(h, MatrixView::from(&mut *base));
                let r = $body;
                r.map(|_| ())
            }
            ViewSpec::Rg(r_) => {
                let $v = rm_from_existing(
                    h,
                    MatrixView::from(MatrixRange::from(&mut *base, r_[0].0..r_[0].0 + r_[0].1, r_[1].0..r_[1].0 + r_[1].1)),
                );
                let r = $body;
                r.map(|_| ())
            }
            ViewSpec::Rev(f) => {
                let $v = rm_from_existing(
                    h,
                    MatrixView::from(MatrixReverse::from(&mut *base, Reverse { rows: f[0], columns: f[1] })),
                );
                let r = $body;
                r.map(|_| ())
            }
            _ => panic!("harness: view kind not available for matrices"),
        }
    }};
}

macro_rules! tview_basic {
    ($D:literal, $base:expr, $spec:expr, $v:ident => $body:expr) => {{
        let base = $base;
        hit(HISTORY_);
        let h = base.history();
        hit("RecordTensor<T,S,D>::shape");
        let shape = base.shape();
        match $spec {
            ViewSpec::Own => {
                hit(CLONE_);
                let $v = base.clone();
                $body
            }
            ViewSpec::Ref => {
                let $v = rt_from_existing(h, TensorView::from(base));
                $body
            }
            _ => unreachable!("harness: view kind not dispatched here"),
        }
    }};
}

macro_rules! tview_fancy {
    ($D:literal, $base:expr, $spec:expr, $v:ident => $body:expr) => {{
        let base = $base;
        hit(HISTORY_);
        let h = base.history();
        hit("RecordTensor<T,S,D>::shape");
        let shape = base.shape();
        match $spec {
            ViewSpec::Acc(p) => {
                let dims: [Dimension; $D] = std::array::from_fn(|k| shape[p[k]].0);
                // `index()` for the source order, `index_by` otherwise
                let access = if (0..$D).all(|k| p[k] == k) {
                    hit("RecordTensor<T,S,D>::index");
                    base.index()
                } else {
                    hit("RecordTensor<T,S,D>::index_by");
                    base.index_by(dims)
                };
                let $v = rt_from_existing(h, TensorView::from(access));
                $body
            }
            ViewSpec::Rn(n) => {
                let dims: [Dimension; $D] = std::array::from_fn(|k| n[k]);
                hit("RecordTensor<T,S,D>::rename_view");
                let $v = base.clone().rename_view(dims);
                $body
            }
            ViewSpec::Tr(p) => {
                let dims: [Dimension; $D] = std::array::from_fn(|k| shape[p[k]].0);
                let $v = rt_from_existing(h, TensorView::from(TensorTranspose::from(base, dims)));
                $body
            }
            ViewSpec::Rg(r) => {
                let ranges: [Option<std::ops::Range<usize>>; $D] = std::array::from_fn(|k| Some(r[k].0..r[k].0 + r[k].1));
                let $v = rt_from_existing(h, TensorView::from(TensorRange::from_all(base, ranges).expect("range")));
                $body
            }
            ViewSpec::Rev(f) => {
                let names: Vec<Dimension> = (0..$D).filter(|&k| f[k]).map(|k| shape[k].0).collect();
                let $v = rt_from_existing(h, TensorView::from(TensorReverse::from(base, &names)));
                $body
            }
            _ => unreachable!("harness: view kind not dispatched here"),
        }
    }};
}

macro_rules! tview_basic_mut {
    ($D:literal, $base:expr, $spec:expr, $v:ident => $body:expr) => {{
        let base = $base;
        hit(HISTORY_);
        let h = base.history();
        hit("RecordTensor<T,S,D>::shape");
        let shape = base.shape();
        match $spec {
            ViewSpec::Own => {
                hit(CLONE_);
                let $v = base.clone();
                let r = $body;
                r.map(|n| {
                    *base = n;
                })
            }
            ViewSpec::Ref => {
                let $v = rt_from_existing(h, TensorView::from(&mut *base));
                let r = $body;
                r.map(|_| ())
            }
            _ => unreachable!("harness: view kind not dispatched here"),
        }
    }};
}

macro_rules! tview_fancy_mut {
    ($D:literal, $base:expr, $spec:expr, $v:ident => $body:expr) => {{
        let base = $base;
        hit(HISTORY_);
        let h = base.history();
        hit("RecordTensor<T,S,D>::shape");
        let shape = base.shape();
        match $spec {
            ViewSpec::Acc(p) => {
                let dims: [Dimension; $D] = std::array::from_fn(|k| shape[p[k]].0);
                let $v = rt_from_existing(h, TensorView::from(TensorAccess::from(&mut *base, dims)));
                let r = $body;
                r.map(|_| ())
            }
            ViewSpec::Tr(p) => {
                let dims: [Dimension; $D] = std::array::from_fn(|k| shape[p[k]].0);
                let $v = rt_from_existing(h, TensorView::from(TensorTranspose::from(&mut *base, dims)));
                let r = $body;
                r.map(|_| ())
            }
            ViewSpec::Rg(r_) => {
                let ranges: [Option<std::ops::Range<usize>>; $D] = std::array::from_fn(|k| Some(r_[k].0..r_[k].0 + r_[k].1));
                let $v = rt_from_existing(h, TensorView::from(TensorRange::from_all(&mut *base, ranges).expect("range")));
                let r = $body;
                r.map(|_| ())
            }
            ViewSpec::Rev(f) => {
                let names: Vec<Dimension> = (0..$D).filter(|&k| f[k]).map(|k| shape[k].0).collect();
                let $v = rt_from_existing(h, TensorView::from(TensorReverse::from(&mut *base, &names)));
                let r = $body;
                r.map(|_| ())
            }
            _ => unreachable!("harness: view kind not dispatched here"),
        }
    }};
}

macro_rules! mview_basic {
    ($base:expr, $spec:expr, $v:ident => $body:expr) => {{
        let base = $base;
        hit(HISTORY_);
        let h = base.history();
        match $spec {
            ViewSpec::Own => {
                hit(CLONE_);
                let $v = base.clone();
                $body
            }
            ViewSpec::Ref => {
                let $v = rm_from_existing(h, MatrixView::from(base));
                $body
            }
            _ => unreachable!("harness: view kind not dispatched here"),
        }
    }};
}

macro_rules! mview_fancy {
    ($base:expr, $spec:expr, $v:ident => $body:expr) => {{
        let base = $base;
        hit(HISTORY_);
        let h = base.history();
        match $spec {
            ViewSpec::Rg(r) => {
                let $v = rm_from_existing(
                    h,
                    MatrixView::from(MatrixRange::from(base, r[0].0..r[0].0 + r[0].1, r[1].0..r[1].0 + r[1].1)),
                );
                $body
            }
            ViewSpec::Rev(f) => {
                let $v = rm_from_existing(
                    h,
                    MatrixView::from(MatrixReverse::from(base, Reverse { rows: f[0], columns: f[1] })),
                );
                $body
            }
            _ => unreachable!("harness: view kind not dispatched here"),
        }
    }};
}

macro_rules! mview_basic_mut {
    ($base:expr, $spec:expr, $v:ident => $body:expr) => {{
        let base = $base;
        hit(HISTORY_);
        let h = base.history();
        match $spec {
            ViewSpec::Own => {
                hit(CLONE_);
                let $v = base.clone();
                let r = $body;
                r.map(|n| {
                    *base = n;
                })
            }
            ViewSpec::Ref => {
                let $v = rm_from_existing(h, MatrixView::from(&mut *base));
                let r = $body;
                r.map(|_| ())
            }
            _ => unreachable!("harness: view kind not dispatched here"),
        }
    }};
}

macro_rules! mview_fancy_mut {
    ($base:expr, $spec:expr, $v:ident => $body:expr) => {{
        let base = $base;
        hit(HISTORY_);
        let h = base.history();
        match $spec {
            ViewSpec::Rg(r_) => {
                let $v = rm_from_existing(
                    h,
                    MatrixView::from(MatrixRange::from(&mut *base, r_[0].0..r_[0].0 + r_[0].1, r_[1].0..r_[1].0 + r_[1].1)),
                );
                let r = $body;
                r.map(|_| ())
            }
            ViewSpec::Rev(f) => {
                let $v = rm_from_existing(
                    h,
                    MatrixView::from(MatrixReverse::from(&mut *base, Reverse { rows: f[0], columns: f[1] })),
                );
                let r = $body;
                r.map(|_| ())
            }
            _ => unreachable!("harness: view kind not dispatched here"),
        }
    }};
}


// ---------------------------------------------------------------------------------------------
// element types: what only a `Real` type can do
// ---------------------------------------------------------------------------------------------

/// `full`: every ownership form of the operator impls (used with the owned and borrowed source
/// kinds); `lite`: the all-references form only (used with the other source kinds, to keep the
/// number of instantiations of the generic library code bearable).
pub trait Elt: Numeric + Primitive + El + PartialOrd + FromUsize + std::fmt::Debug + 'static {
    fn t_real_full<S: TensorRef<(Self, Index), D>, const D: usize>(
        v: RecordTensor<'static, Self, S, D>,
        op: &str,
        via: &str,
        k: Option<&Self>,
    ) -> RT<Self, D>;
    fn t_real_lite<S: TensorRef<(Self, Index), D>, const D: usize>(
        v: RecordTensor<'static, Self, S, D>,
        op: &str,
        k: Option<&Self>,
    ) -> RT<Self, D>;
    fn m_real_full<S: MatrixRef<(Self, Index)> + NoInteriorMutability>(
        v: RecordMatrix<'static, Self, S>,
        op: &str,
        via: &str,
        k: Option<&Self>,
    ) -> RM<Self>;
    fn m_real_lite<S: MatrixRef<(Self, Index)> + NoInteriorMutability>(
        v: RecordMatrix<'static, Self, S>,
        op: &str,
        k: Option<&Self>,
    ) -> RM<Self>;
    fn rec_real(x: &Rc<Self>, op: &str, k: Option<&Self>) -> Rc<Self>;
    /// are two numbers the same answer (floats: NaN = NaN, bit patterns otherwise)
    fn eqv(&self, other: &Self) -> bool {
        self == other
    }
    /// exact element type: numbers are printed and compared with the model
    const EXACT: bool = true;
}

macro_rules! real_body_full {
    ($v:expr, $op:expr, $via:expr, $k:expr) => {{
        let v = $v;
        match $op {
            "sin" => if $via == "ref" { (&v).sin() } else { v.sin() },
            "cos" => if $via == "ref" { (&v).cos() } else { v.cos() },
            "exp" => if $via == "ref" { (&v).exp() } else { v.exp() },
            "ln" => if $via == "ref" { (&v).ln() } else { v.ln() },
            "sqrt" => if $via == "ref" { (&v).sqrt() } else { v.sqrt() },
            "pown" => {
                let k = $k.expect("number");
                match $via {
                    "val_val" => v.pow(k.clone()),
                    "val_ref" => v.pow(k),
                    "ref_val" => (&v).pow(k.clone()),
                    _ => (&v).pow(k),
                }
            }
            "npow" => {
                let k = $k.expect("number");
                match $via {
                    "val_val" => k.clone().pow(v),
                    "val_ref" => k.clone().pow(&v),
                    "ref_val" => k.pow(v),
                    _ => k.pow(&v),
                }
            }
            other => panic!("harness: unknown real op {}", other),
        }
    }};
}

macro_rules! real_body_lite {
    ($v:expr, $op:expr, $k:expr) => {{
        let v = $v;
        match $op {
            "sin" => (&v).sin(),
            "cos" => (&v).cos(),
            "exp" => (&v).exp(),
            "ln" => (&v).ln(),
            "sqrt" => (&v).sqrt(),
            "pown" => (&v).pow($k.expect("number")),
            "npow" => $k.expect("number").pow(&v),
            other => panic!("harness: unknown real op {}", other),
        }
    }};
}

macro_rules! impl_elt_real {
    ($T:ty, { $($extra:tt)* }) => {
impl Elt for $T {
    fn t_real_full<S: TensorRef<($T, Index), D>, const D: usize>(
        v: RecordTensor<'static, $T, S, D>,
        op: &str,
        via: &str,
        k: Option<&$T>,
    ) -> RT<$T, D> {
        real_body_full!(v, op, via, k)
    }
    fn t_real_lite<S: TensorRef<($T, Index), D>, const D: usize>(v: RecordTensor<'static, $T, S, D>, op: &str, k: Option<&$T>) -> RT<$T, D> {
        real_body_lite!(v, op, k)
    }
    fn m_real_full<S: MatrixRef<($T, Index)> + NoInteriorMutability>(
        v: RecordMatrix<'static, $T, S>,
        op: &str,
        via: &str,
        k: Option<&$T>,
    ) -> RM<$T> {
        real_body_full!(v, op, via, k)
    }
    fn m_real_lite<S: MatrixRef<($T, Index)> + NoInteriorMutability>(v: RecordMatrix<'static, $T, S>, op: &str, k: Option<&$T>) -> RM<$T> {
        real_body_lite!(v, op, k)
    }
    fn rec_real(x: &Rc<$T>, op: &str, k: Option<&$T>) -> Rc<$T> {
        match op {
            "sin" => x.sin(),
            "cos" => x.cos(),
            "exp" => x.exp(),
            "ln" => x.ln(),
            "sqrt" => x.sqrt(),
            "pown" => x.pow(k.unwrap()),
            "npow" => k.unwrap().pow(x),
            other => panic!("harness: unknown real op {}", other),
        }
    }
    $($extra)*
}
    };
}

impl_elt_real!(Fp, {});
impl_elt_real!(f64, {
    fn eqv(&self, other: &f64) -> bool {
        (self.is_nan() && other.is_nan()) || self.to_bits() == other.to_bits()
    }
    const EXACT: bool = false;
});

impl El for f64 {
    fn parse(s: &str) -> f64 {
        s.parse::<f64>().expect("f64")
    }
}

impl Elt for Rat {
    fn t_real_full<S: TensorRef<(Rat, Index), D>, const D: usize>(
        _v: RecordTensor<'static, Rat, S, D>,
        _op: &str,
        _via: &str,
        _k: Option<&Rat>,
    ) -> RT<Rat, D> {
        panic!("harness: no real functions for Rat")
    }
    fn t_real_lite<S: TensorRef<(Rat, Index), D>, const D: usize>(_v: RecordTensor<'static, Rat, S, D>, _op: &str, _k: Option<&Rat>) -> RT<Rat, D> {
        panic!("harness: no real functions for Rat")
    }
    fn m_real_full<S: MatrixRef<(Rat, Index)> + NoInteriorMutability>(
        _v: RecordMatrix<'static, Rat, S>,
        _op: &str,
        _via: &str,
        _k: Option<&Rat>,
    ) -> RM<Rat> {
        panic!("harness: no real functions for Rat")
    }
    fn m_real_lite<S: MatrixRef<(Rat, Index)> + NoInteriorMutability>(_v: RecordMatrix<'static, Rat, S>, _op: &str, _k: Option<&Rat>) -> RM<Rat> {
        panic!("harness: no real functions for Rat")
    }
    fn rec_real(_x: &Rc<Rat>, _op: &str, _k: Option<&Rat>) -> Rc<Rat> {
        panic!("harness: no real functions for Rat")
    }
}

pub const REAL_OPS: [&str; 7] = ["sin", "cos", "exp", "ln", "sqrt", "pown", "npow"];

// ---------------------------------------------------------------------------------------------
// function tables
// ---------------------------------------------------------------------------------------------

/// `(f, f_x, f_y)` for `binary`, `binary_left_assign`, `binary_right_assign`: the four standard
/// functions written as in functions.rs, and the user functions of c04.rs.
pub fn bfn_triple<T>(name: &str) -> (F2<T>, F2<T>, F2<T>)
where
    T: Numeric + 'static,
    for<'a> &'a T: NumericRef<T>,
{
    match name {
        "add" => (Box::new(|x: T, y: T| x + y), Box::new(|_x: T, _y: T| T::one()), Box::new(|_x: T, _y: T| T::one())),
        "sub" => (Box::new(|x: T, y: T| x - y), Box::new(|_x: T, _y: T| T::one()), Box::new(|_x: T, _y: T| -T::one())),
        "mul" => (Box::new(|x: T, y: T| x * y), Box::new(|_x: T, y: T| y), Box::new(|x: T, _y: T| x)),
        "div" => (
            Box::new(|x: T, y: T| x / y),
            Box::new(|_x: T, y: T| T::one() / y),
            Box::new(|x: T, y: T| -x / (y.clone() * y)),
        ),
        other => binary_fn::<T>(other),
    }
}

/// `(f, f')` for `unary` / `unary_assign`: the functions of c04.rs, each closure additionally
/// capturing a `Record` that refers to the operand's WengertList (its number, one, is multiplied
/// in) — the closure bounds of the container entry points must accept such closures;
/// `boom.<n>`: `cube` whose `f` panics at its `n`-th call.
pub fn ufn_pair<T>(name: &str, list: Option<&'static WengertList<T>>) -> (F1<T>, F1<T>)
where
    T: Elt,
    for<'a> &'a T: NumericRef<T>,
{
    let cap: Rc<T> = Record::from_existing((T::one(), 0), list);
    let cap2 = cap.clone();
    if let Some(n) = name.strip_prefix("boom.") {
        let n: usize = n.parse().expect("count");
        let calls = std::cell::Cell::new(0usize);
        let (f, df) = unary_fn::<T>("cube");
        return (
            Box::new(move |x: T| {
                let c = calls.get();
                calls.set(c + 1);
                if c == n {
                    panic!("harness: the closure panics at this element");
                }
                f(x) * cap.number.clone()
            }),
            Box::new(move |x: T| df(x) * cap2.number.clone()),
        );
    }
    let (f, df) = unary_fn::<T>(name);
    (Box::new(move |x: T| f(x) * cap.number.clone()), Box::new(move |x: T| df(x) * cap2.number.clone()))
}

/// the same for `binary` and its assigning forms (`boom.<n>`: `psq`)
pub fn bfn_cap<T>(name: &str, list: Option<&'static WengertList<T>>) -> (F2<T>, F2<T>, F2<T>)
where
    T: Elt,
    for<'a> &'a T: NumericRef<T>,
{
    let cap: Rc<T> = Record::from_existing((T::one(), 0), list);
    let (cap2, cap3) = (cap.clone(), cap.clone());
    let (boom, base) = match name.strip_prefix("boom.") {
        Some(n) => (Some(n.parse::<usize>().expect("count")), "psq"),
        None => (None, name),
    };
    let (f, dfx, dfy) = bfn_triple::<T>(base);
    let calls = std::cell::Cell::new(0usize);
    (
        Box::new(move |x: T, y: T| {
            let c = calls.get();
            calls.set(c + 1);
            if Some(c) == boom {
                panic!("harness: the closure panics at this element");
            }
            f(x, y) * cap.number.clone()
        }),
        Box::new(move |x: T, y: T| dfx(x, y) * cap2.number.clone()),
        Box::new(move |x: T, y: T| dfy(x, y) * cap3.number.clone()),
    )
}

pub const BFNS: [&str; 7] = ["add", "sub", "mul", "div", "axy", "wsum", "psq"];
pub const RECFNS_PLAIN: [&str; 5] = ["id", "sq", "aff", "konst", "half"];
pub const RECFNS_INDEXED: [&str; 2] = ["alt", "scale"];

/// Named functions `Record -> Record` (same table as `recFn` in lean/Driver/C06.lean); `k` is
/// the element's row-major position, `tapes` the lists `lift.<t>` creates variables on.
pub fn rec_fn<T>(name: &str, tapes: Vec<&'static WengertList<T>>) -> Box<dyn Fn(usize, Rc<T>) -> Rc<T>>
where
    T: Elt,
    for<'a> &'a T: NumericRef<T>,
{
    let parts: Vec<&str> = name.split('.').collect();
    match parts[0] {
        "id" => Box::new(|_k, x| x),
        "sq" => Box::new(|_k, x| &x * &x),
        "aff" => Box::new(|_k, x| x * two::<T>() + T::one()),
        "konst" => Box::new(|_k, x| Record::constant(x.number)),
        "lift" => {
            let t: usize = parts[1].parse().expect("tape");
            let list = tapes[t];
            Box::new(move |_k, x| Record::variable(x.number, list))
        }
        "half" => Box::new(|_k, x| if x.number < T::zero() { Record::constant(x.number) } else { x }),
        "alt" => Box::new(|k, x| if k % 2 == 0 { x } else { Record::constant(x.number) }),
        "scale" => Box::new(|k, x| x * T::from_usize(k + 1).expect("from_usize")),
        // the closure captures a separately created variable of the same WengertList
        "cap" => {
            let t: usize = parts[1].parse().expect("tape");
            let cap: Rc<T> = Record::variable(three::<T>(), tapes[t]);
            Box::new(move |_k, x| &x * &cap)
        }
        // squares, and panics at its `n`-th call (counted from 0)
        "boom" => {
            let n: usize = parts[1].parse().expect("count");
            let calls = std::cell::Cell::new(0usize);
            Box::new(move |_k, x| {
                let c = calls.get();
                calls.set(c + 1);
                if c == n {
                    panic!("harness: the closure panics at this element");
                }
                &x * &x
            })
        }
        other => panic!("harness: unknown record function {}", other),
    }
}

// ---------------------------------------------------------------------------------------------
// generic operations on containers over any source
// ---------------------------------------------------------------------------------------------

macro_rules! forms4 {
    ($via:expr, $a:expr, $b:expr, $op:tt) => {
        match $via {
            "val_val" => $a $op $b,
            "val_ref" => $a $op &$b,
            "ref_val" => &$a $op $b,
            "ref_ref" => &$a $op &$b,
            other => panic!("harness: unknown form {}", other),
        }
    };
}

macro_rules! bin_body_full {
    ($a:expr, $b:expr, $op:expr, $via:expr, $fns:expr) => {{
        let (a, b) = ($a, $b);
        match $op {
            "add" => forms4!($via, a, b, +),
            "sub" => forms4!($via, a, b, -),
            "emul" => a.elementwise_multiply(&b),
            "ediv" => a.elementwise_divide(&b),
            "binary" => {
                let (f, dfx, dfy) = $fns.expect("fn");
                a.binary(&b, |x, y| f(x, y), |x, y| dfx(x, y), |x, y| dfy(x, y))
            }
            other => panic!("harness: unknown binary op {}", other),
        }
    }};
}

macro_rules! bin_body_lite {
    ($a:expr, $b:expr, $op:expr, $fns:expr) => {{
        let (a, b) = ($a, $b);
        match $op {
            "add" => &a + &b,
            "sub" => &a - &b,
            "emul" => a.elementwise_multiply(&b),
            "ediv" => a.elementwise_divide(&b),
            "binary" => {
                let (f, dfx, dfy) = $fns.expect("fn");
                a.binary(&b, |x, y| f(x, y), |x, y| dfx(x, y), |x, y| dfy(x, y))
            }
            other => panic!("harness: unknown binary op {}", other),
        }
    }};
}

type Fns3<'f, T> = Option<&'f (F2<T>, F2<T>, F2<T>)>;
type Fns2<'f, T> = Option<&'f (F1<T>, F1<T>)>;

fn t_bin_full<T, S1, S2, const D: usize>(
    a: RecordTensor<'static, T, S1, D>,
    b: RecordTensor<'static, T, S2, D>,
    op: &str,
    via: &str,
    fns: Fns3<T>,
) -> RT<T, D>
where
    T: Elt,
    for<'x> &'x T: NumericRef<T>,
    S1: TensorRef<(T, Index), D>,
    S2: TensorRef<(T, Index), D>,
{
    hit_op("T", op, via);
    bin_body_full!(a, b, op, via, fns)
}

fn t_bin_lite<T, S1, S2, const D: usize>(a: RecordTensor<'static, T, S1, D>, b: RecordTensor<'static, T, S2, D>, op: &str, fns: Fns3<T>) -> RT<T, D>
where
    T: Elt,
    for<'x> &'x T: NumericRef<T>,
    S1: TensorRef<(T, Index), D>,
    S2: TensorRef<(T, Index), D>,
{
    hit_op("T", op, "ref_ref");
    bin_body_lite!(a, b, op, fns)
}

fn m_bin_full<T, S1, S2>(a: RecordMatrix<'static, T, S1>, b: RecordMatrix<'static, T, S2>, op: &str, via: &str, fns: Fns3<T>) -> RM<T>
where
    T: Elt,
    for<'x> &'x T: NumericRef<T>,
    S1: MatrixRef<(T, Index)> + NoInteriorMutability,
    S2: MatrixRef<(T, Index)> + NoInteriorMutability,
{
    hit_op("M", op, via);
    bin_body_full!(a, b, op, via, fns)
}

fn m_bin_lite<T, S1, S2>(a: RecordMatrix<'static, T, S1>, b: RecordMatrix<'static, T, S2>, op: &str, fns: Fns3<T>) -> RM<T>
where
    T: Elt,
    for<'x> &'x T: NumericRef<T>,
    S1: MatrixRef<(T, Index)> + NoInteriorMutability,
    S2: MatrixRef<(T, Index)> + NoInteriorMutability,
{
    hit_op("M", op, "ref_ref");
    bin_body_lite!(a, b, op, fns)
}

macro_rules! bin_same_body {
    ($v:expr, $op:expr, $via:expr, $fns:expr) => {{
        let v = $v;
        match $op {
            "add" => match $via {
                "val_val" => v.clone() + v,
                "val_ref" => v.clone() + &v,
                "ref_val" => &v + v.clone(),
                _ => &v + &v,
            },
            "sub" => match $via {
                "val_val" => v.clone() - v,
                "val_ref" => v.clone() - &v,
                "ref_val" => &v - v.clone(),
                _ => &v - &v,
            },
            "emul" => v.elementwise_multiply(&v),
            "ediv" => v.elementwise_divide(&v),
            "binary" => {
                let (f, dfx, dfy) = $fns.expect("fn");
                v.binary(&v, |x, y| f(x, y), |x, y| dfx(x, y), |x, y| dfy(x, y))
            }
            other => panic!("harness: unknown binary op {}", other),
        }
    }};
}

/// both operands are one and the same container object
fn t_bin_same<T, S, const D: usize>(v: RecordTensor<'static, T, S, D>, op: &str, via: &str, fns: Fns3<T>) -> RT<T, D>
where
    T: Elt,
    for<'x> &'x T: NumericRef<T>,
    S: TensorRef<(T, Index), D> + Clone,
{
    hit_op("T", op, via);
    bin_same_body!(v, op, via, fns)
}

fn m_bin_same<T, S>(v: RecordMatrix<'static, T, S>, op: &str, via: &str, fns: Fns3<T>) -> RM<T>
where
    T: Elt,
    for<'x> &'x T: NumericRef<T>,
    S: MatrixRef<(T, Index)> + NoInteriorMutability + Clone,
{
    hit_op("M", op, via);
    bin_same_body!(v, op, via, fns)
}

fn t_matmul_full<T, S1, S2>(a: RecordTensor<'static, T, S1, 2>, b: RecordTensor<'static, T, S2, 2>, via: &str) -> RT<T, 2>
where
    T: Elt,
    for<'x> &'x T: NumericRef<T>,
    S1: TensorRef<(T, Index), 2>,
    S2: TensorRef<(T, Index), 2>,
{
    hit_op("T", "matmul", via);
    forms4!(via, a, b, *)
}

fn t_matmul_lite<T, S1, S2>(a: RecordTensor<'static, T, S1, 2>, b: RecordTensor<'static, T, S2, 2>) -> RT<T, 2>
where
    T: Elt,
    for<'x> &'x T: NumericRef<T>,
    S1: TensorRef<(T, Index), 2>,
    S2: TensorRef<(T, Index), 2>,
{
    hit_op("T", "matmul", "ref_ref");
    &a * &b
}

fn m_matmul_full<T, S1, S2>(a: RecordMatrix<'static, T, S1>, b: RecordMatrix<'static, T, S2>, via: &str) -> RM<T>
where
    T: Elt,
    for<'x> &'x T: NumericRef<T>,
    S1: MatrixRef<(T, Index)> + NoInteriorMutability,
    S2: MatrixRef<(T, Index)> + NoInteriorMutability,
{
    hit_op("M", "matmul", via);
    forms4!(via, a, b, *)
}

fn m_matmul_lite<T, S1, S2>(a: RecordMatrix<'static, T, S1>, b: RecordMatrix<'static, T, S2>) -> RM<T>
where
    T: Elt,
    for<'x> &'x T: NumericRef<T>,
    S1: MatrixRef<(T, Index)> + NoInteriorMutability,
    S2: MatrixRef<(T, Index)> + NoInteriorMutability,
{
    hit_op("M", "matmul", "ref_ref");
    &a * &b
}

macro_rules! un_body_full {
    ($T:ty, $v:expr, $op:expr, $via:expr, $k:expr, $fns:expr, $real:path) => {{
        let v = $v;
        match $op {
            "addn" => { let k = $k.expect("number").clone(); forms4!($via, v, k, +) }
            "subn" => { let k = $k.expect("number").clone(); forms4!($via, v, k, -) }
            "muln" => { let k = $k.expect("number").clone(); forms4!($via, v, k, *) }
            "divn" => { let k = $k.expect("number").clone(); forms4!($via, v, k, /) }
            "subsw" => {
                let k = $k.expect("number").clone();
                match $via {
                    "val_val" => v.sub_swapped(k),
                    "val_ref" => v.sub_swapped(&k),
                    "ref_val" => (&v).sub_swapped(k),
                    _ => (&v).sub_swapped(&k),
                }
            }
            "divsw" => {
                let k = $k.expect("number").clone();
                match $via {
                    "val_val" => v.div_swapped(k),
                    "val_ref" => v.div_swapped(&k),
                    "ref_val" => (&v).div_swapped(k),
                    _ => (&v).div_swapped(&k),
                }
            }
            "neg" => if $via == "ref" { -&v } else { -v },
            "unary" => {
                let (f, df): &(F1<$T>, F1<$T>) = $fns.expect("fn");
                v.unary(|x| f(x), |x| df(x))
            }
            _ => $real(v, $op, $via, $k),
        }
    }};
}

macro_rules! un_body_lite {
    ($T:ty, $v:expr, $op:expr, $k:expr, $fns:expr, $real:path) => {{
        let v = $v;
        match $op {
            "addn" => &v + $k.expect("number"),
            "subn" => &v - $k.expect("number"),
            "muln" => &v * $k.expect("number"),
            "divn" => &v / $k.expect("number"),
            "subsw" => (&v).sub_swapped($k.expect("number")),
            "divsw" => (&v).div_swapped($k.expect("number")),
            "neg" => -&v,
            "unary" => {
                let (f, df): &(F1<$T>, F1<$T>) = $fns.expect("fn");
                v.unary(|x| f(x), |x| df(x))
            }
            _ => $real(v, $op, $k),
        }
    }};
}

fn t_un_full<T, S, const D: usize>(v: RecordTensor<'static, T, S, D>, op: &str, via: &str, k: Option<&T>, fns: Fns2<T>) -> RT<T, D>
where
    T: Elt,
    for<'x> &'x T: NumericRef<T>,
    S: TensorRef<(T, Index), D>,
{
    hit_op("T", op, via);
    un_body_full!(T, v, op, via, k, fns, T::t_real_full)
}

fn t_un_lite<T, S, const D: usize>(v: RecordTensor<'static, T, S, D>, op: &str, k: Option<&T>, fns: Fns2<T>) -> RT<T, D>
where
    T: Elt,
    for<'x> &'x T: NumericRef<T>,
    S: TensorRef<(T, Index), D>,
{
    api::hit_op_lite("T", op);
    un_body_lite!(T, v, op, k, fns, T::t_real_lite)
}

fn m_un_full<T, S>(v: RecordMatrix<'static, T, S>, op: &str, via: &str, k: Option<&T>, fns: Fns2<T>) -> RM<T>
where
    T: Elt,
    for<'x> &'x T: NumericRef<T>,
    S: MatrixRef<(T, Index)> + NoInteriorMutability,
{
    hit_op("M", op, via);
    un_body_full!(T, v, op, via, k, fns, T::m_real_full)
}

fn m_un_lite<T, S>(v: RecordMatrix<'static, T, S>, op: &str, k: Option<&T>, fns: Fns2<T>) -> RM<T>
where
    T: Elt,
    for<'x> &'x T: NumericRef<T>,
    S: MatrixRef<(T, Index)> + NoInteriorMutability,
{
    api::hit_op_lite("M", op);
    un_body_lite!(T, v, op, k, fns, T::m_real_lite)
}

// ---------------------------------------------------------------------------------------------
// the case
// ---------------------------------------------------------------------------------------------

pub enum AnyC<T: Primitive + 'static> {
    /// 0-dimensional: what `From<Record>` makes
    T0(RT<T, 0>),
    T1(RT<T, 1>),
    T2(RT<T, 2>),
    T3(RT<T, 3>),
    M(RM<T>),
}

impl<T: Elt> AnyC<T>
where
    for<'x> &'x T: NumericRef<T>,
{
    fn is_matrix(&self) -> bool {
        matches!(self, AnyC::M(_))
    }
    fn shape(&self) -> Sh {
        match self {
            AnyC::M(_) => {
                hit("RecordMatrix<T,S>::rows");
                hit("RecordMatrix<T,S>::columns");
            }
            _ => hit("RecordTensor<T,S,D>::shape"),
        }
        match self {
            AnyC::T0(c) => c.shape().to_vec(),
            AnyC::T1(c) => c.shape().to_vec(),
            AnyC::T2(c) => c.shape().to_vec(),
            AnyC::T3(c) => c.shape().to_vec(),
            AnyC::M(c) => vec![("r", c.rows()), ("c", c.columns())],
        }
    }
    fn history(&self) -> Option<&'static WengertList<T>> {
        hit(HISTORY_);
        match self {
            AnyC::T0(c) => c.history(),
            AnyC::T1(c) => c.history(),
            AnyC::T2(c) => c.history(),
            AnyC::T3(c) => c.history(),
            AnyC::M(c) => c.history(),
        }
    }
    /// `elements()` of the container
    fn elements(&self) -> usize {
        hit2(if self.is_matrix() { RM_ } else { RT_ }, "elements");
        match self {
            AnyC::T0(c) => c.elements(),
            AnyC::T1(c) => c.elements(),
            AnyC::T2(c) => c.elements(),
            AnyC::T3(c) => c.elements(),
            AnyC::M(c) => c.elements(),
        }
    }
    /// a copy made by `clone_from` onto a container of constants of another shape
    fn copy(&self) -> AnyC<T> {
        hit(CLONE_);
        hit("Clone::clone_from");
        macro_rules! via_clone_from {
            ($c:ident, $D:literal, $variant:ident) => {{
                let shape: [(Dimension, usize); $D] = std::array::from_fn(|k| (["zz", "yy", "xx"][k % 3], 1 + k % 2));
                let n: usize = shape.iter().map(|d| d.1).product();
                let mut other: RT<T, $D> = RecordTensor::constants(Tensor::from(shape, vec![T::zero(); n]));
                other.clone_from($c);
                AnyC::$variant(other)
            }};
        }
        match self {
            AnyC::T0(c) => AnyC::T0(c.clone()),
            AnyC::T1(c) => via_clone_from!(c, 1, T1),
            AnyC::T2(c) => via_clone_from!(c, 2, T2),
            AnyC::T3(c) => via_clone_from!(c, 3, T3),
            AnyC::M(c) => {
                let mut other: RM<T> = RecordMatrix::constants(Matrix::from_flat_row_major((1, 2), vec![T::zero(); 2]));
                other.clone_from(c);
                AnyC::M(other)
            }
        }
    }
    /// `(number, index)` in row-major order
    fn elems(&self) -> Vec<(T, Index)> {
        hit2(if self.is_matrix() { RM_ } else { RT_ }, "view");
        match self {
            AnyC::T0(c) => c.view().iter().collect(),
            AnyC::T1(c) => c.view().iter().collect(),
            AnyC::T2(c) => c.view().iter().collect(),
            AnyC::T3(c) => c.view().iter().collect(),
            AnyC::M(c) => c.view().row_major_iter().collect(),
        }
    }
}

pub struct Slot<T: Primitive + 'static> {
    c: AnyC<T>,
    /// the scalar mirror, row-major; `None` once the mirror could not follow
    shadow: Option<Vec<Rc<T>>>,
    /// mixed histories inside (after a failed `map_mut`): constness is not compared
    mixed: bool,
}

pub struct CaseG<T: Primitive + 'static> {
    // field order matters: containers and records are dropped before the tapes
    slots: HashMap<String, Slot<T>>,
    tapes: Vec<TapeBox<T>>,
    stapes: Vec<TapeBox<T>>,
}

fn tensor_from<T: Elt, const D: usize>(shape: &Sh, vals: Vec<T>) -> Tensor<T, D> {
    Tensor::from(shape_array::<D>(shape), vals)
}

fn same<T: Elt>(a: &[T], b: &[T]) -> bool {
    a.len() == b.len() && a.iter().zip(b).all(|(x, y)| x.eqv(y))
}

fn shape_elems(shape: &Sh) -> usize {
    shape.iter().map(|x| x.1).product()
}

impl<T> CaseG<T>
where
    T: Elt,
    for<'x> &'x T: NumericRef<T>,
{
    pub fn new(n: usize) -> CaseG<T> {
        CaseG {
            slots: HashMap::new(),
            tapes: (0..n).map(|_| TapeBox::new()).collect(),
            stapes: (0..n).map(|_| TapeBox::new()).collect(),
        }
    }

    fn tape_id(&self, h: Option<&WengertList<T>>) -> String {
        match h {
            None => "none".into(),
            Some(h) => (0..self.tapes.len())
                .find(|&t| std::ptr::eq(h, self.tapes[t].get()))
                .map(|t| t.to_string())
                .unwrap_or_else(|| "?".into()),
        }
    }

    fn lists(&self, shadow: bool) -> Vec<&'static WengertList<T>> {
        (if shadow { &self.stapes } else { &self.tapes }).iter().map(|t| t.get()).collect()
    }

    /// the answer for a stored container, with the comparison against its scalar mirror
    fn answer(&self, name: &str) -> String {
        let slot = &self.slots[name];
        let elems = slot.c.elems();
        let vals: Vec<T> = elems.iter().map(|e| e.0.clone()).collect();
        let idx: Vec<usize> = elems.iter().map(|e| e.1).collect();
        let is_const = slot.c.history().is_none();
        hit(if slot.c.is_matrix() { "impl~std::fmt::Display~for~RecordMatrix<T,S>::fmt" } else { "impl~std::fmt::Display~for~RecordTensor<T,S,D>::fmt" });
        let shown = match &slot.c {
            AnyC::T0(c) => format!("{}", c),
            AnyC::T1(c) => format!("{}", c),
            AnyC::T2(c) => format!("{}", c),
            AnyC::T3(c) => format!("{}", c),
            AnyC::M(c) => format!("{}", c),
        };
        if T::EXACT && !display_shows(&shown, &vals) {
            return format!("display-does-not-show-the-numbers {}", shown.replace('\n', "|"));
        }
        let scalar = match &slot.shadow {
            None => "skip".to_string(),
            Some(recs) => {
                let svals: Vec<T> = recs.iter().map(|r| r.number.clone()).collect();
                let sconst = recs.iter().all(|r| r.history().is_none());
                if same::<T>(&svals, &vals) && (slot.mixed || sconst == is_const) && slot.c.elements() == vals.len() {
                    "ok".to_string()
                } else {
                    format!("DIFF(v={},const={})", show_list(&svals), if sconst { 1 } else { 0 })
                }
            }
        };
        format!(
            "shape={} const={} v={} scalar={} idx={}",
            show_shape(&slot.c.shape()),
            if is_const { 1 } else { 0 },
            show_list(&vals),
            scalar,
            show_usizes(&idx)
        )
    }

    fn put(&mut self, name: &str, c: AnyC<T>, shadow: Option<Vec<Rc<T>>>) {
        self.slots.insert(name.to_string(), Slot { c, shadow, mixed: false });
    }

    /// operand token -> (name, view spec, view shape, offsets); `Err`: the answer for an unknown
    /// name / an impossible view.  The reordering / range / reverse source kinds are driven for
    /// two dimensional tensors and for matrices only.
    fn operand(&self, tok: &str) -> Result<(String, ViewSpec, Sh, Vec<usize>), String> {
        let (n, spec) = parse_operand(tok).ok_or("bad-ref")?;
        let slot = self.slots.get(n).ok_or("bad-ref")?;
        let shape = slot.c.shape();
        if !spec.is_basic() && shape.len() != 2 {
            return Err("bad-view".into());
        }
        let (vs, offs) = view_of(&shape, &spec, slot.c.is_matrix()).ok_or("bad-ref")?;
        Ok((n.to_string(), spec, vs, offs))
    }

    fn shadow_view(&self, name: &str, offs: &[usize]) -> Option<Vec<Rc<T>>> {
        self.slots[name].shadow.as_ref().map(|recs| offs.iter().map(|&o| recs[o].clone()).collect())
    }

    // -----------------------------------------------------------------------------------------

    fn create(&mut self, toks: &[&str]) -> String {
        let is_var = toks[0] == "vars";
        let (name, kind, shape, vals) = (toks[1], toks[2], parse_shape(toks[3]), split_comma(toks[4]));
        let vals: Vec<T> = vals.iter().map(|s| T::parse(s)).collect();
        let t: usize = opt_arg("t", toks).map(|s| s.parse().unwrap()).unwrap_or(0);
        let list = if is_var { Some(self.tapes[t].get()) } else { None };
        macro_rules! mk {
            ($D:literal, $variant:ident) => {{
                let tensor = tensor_from::<T, $D>(&shape, vals.clone());
                hit(if list.is_some() { "RecordTensor<T,Tensor<(T,Index),D>,D>::variables" } else { "RecordTensor<T,Tensor<(T,Index),D>,D>::constants" });
                catch(|| {
                    AnyC::$variant(match list {
                        Some(l) => RecordTensor::variables(l, tensor),
                        None => RecordTensor::constants(tensor),
                    })
                })
            }};
        }
        let c = match (kind, shape.len()) {
            ("M", 2) => {
                let m = Matrix::from_flat_row_major((shape[0].1, shape[1].1), vals.clone());
                hit(if list.is_some() { "RecordMatrix<T,Matrix<(T,Index)>>::variables" } else { "RecordMatrix<T,Matrix<(T,Index)>>::constants" });
                catch(|| {
                    AnyC::M(match list {
                        Some(l) => RecordMatrix::variables(l, m),
                        None => RecordMatrix::constants(m),
                    })
                })
            }
            ("T", 0) => mk!(0, T0),
            ("T", 1) => mk!(1, T1),
            ("T", 2) => mk!(2, T2),
            ("T", 3) => mk!(3, T3),
            _ => return "bad-op".into(),
        };
        let c = match c {
            Ok(c) => c,
            Err(k) => return panic_str(k),
        };
        let slist = self.stapes[t].get();
        let shadow: Vec<Rc<T>> = vals
            .iter()
            .map(|x| if is_var { Record::variable(x.clone(), slist) } else { Record::constant(x.clone()) })
            .collect();
        self.put(name, c, Some(shadow));
        self.answer(name)
    }

    fn unary_line(&mut self, toks: &[&str]) -> String {
        let op = toks[0];
        let via = opt_arg("via", toks).unwrap_or("ref_ref");
        let (res, atok, k): (&str, &str, Option<T>) = match op {
            "npow" => (toks[1], toks[3], Some(T::parse(toks[2]))),
            "addn" | "subn" | "muln" | "divn" | "subsw" | "divsw" | "pown" => (toks[1], toks[2], Some(T::parse(toks[3]))),
            _ => (toks[1], toks[2], None),
        };
        let (an, spec, _vs, offs) = match self.operand(atok) {
            Ok(x) => x,
            Err(e) => return e,
        };
        // separate closure instances for the container and for the scalar mirror (a `boom`
        // closure counts its calls)
        let list = self.slots[&an].c.history();
        let fns: Option<(F1<T>, F1<T>)> = if op == "unary" { Some(ufn_pair::<T>(opt_arg("fn", toks).unwrap(), list)) } else { None };
        let sfns: Option<(F1<T>, F1<T>)> = if op == "unary" { Some(ufn_pair::<T>(opt_arg("fn", toks).unwrap(), None)) } else { None };
        let slot = &self.slots[&an];
        let kr = k.as_ref();
        let fr = fns.as_ref();
        let sfr = sfns.as_ref();
        let basic = spec.is_basic();
        let out: Result<AnyC<T>, PanicKind> = match &slot.c {
            AnyC::T0(c) => tview_basic!(0, c, &spec, v => catch(move || AnyC::T0(t_un_full::<T, _, 0>(v, op, via, kr, fr)))),
            AnyC::T1(c) => tview_basic!(1, c, &spec, v => catch(move || AnyC::T1(t_un_full::<T, _, 1>(v, op, via, kr, fr)))),
            AnyC::T2(c) if basic => tview_basic!(2, c, &spec, v => catch(move || AnyC::T2(t_un_full::<T, _, 2>(v, op, via, kr, fr)))),
            AnyC::T2(c) => tview_fancy!(2, c, &spec, v => catch(move || AnyC::T2(t_un_lite::<T, _, 2>(v, op, kr, fr)))),
            AnyC::T3(c) => tview_basic!(3, c, &spec, v => catch(move || AnyC::T3(t_un_full::<T, _, 3>(v, op, via, kr, fr)))),
            AnyC::M(c) if basic => mview_basic!(c, &spec, v => catch(move || AnyC::M(m_un_full::<T, _>(v, op, via, kr, fr)))),
            AnyC::M(c) => mview_fancy!(c, &spec, v => catch(move || AnyC::M(m_un_lite::<T, _>(v, op, kr, fr)))),
        };
        // the mirror runs in any case: a panicking closure leaves the earlier elements' entries
        let shadow = self.shadow_view(&an, &offs).and_then(|recs| {
            catch(|| recs.iter().map(|x| scalar_unary::<T>(x, op, kr, sfr)).collect::<Vec<Rc<T>>>()).ok()
        });
        let out = match out {
            Ok(c) => c,
            Err(kind) => return panic_str(kind),
        };
        self.put(res, out, shadow);
        self.answer(res)
    }

    fn binary_line(&mut self, toks: &[&str]) -> String {
        let op = toks[0];
        let via = opt_arg("via", toks).unwrap_or("ref_ref");
        let res = toks[1];
        let (a, b) = match (self.operand(toks[2]), self.operand(toks[3])) {
            (Ok(a), Ok(b)) => (a, b),
            (Err(e), _) | (_, Err(e)) => return e,
        };
        let list = self.slots[&a.0].c.history().or(self.slots[&b.0].c.history());
        let fns: Option<(F2<T>, F2<T>, F2<T>)> = if op == "binary" { Some(bfn_cap::<T>(opt_arg("fn", toks).unwrap(), list)) } else { None };
        let sfns: Option<(F2<T>, F2<T>, F2<T>)> = if op == "binary" { Some(bfn_cap::<T>(opt_arg("fn", toks).unwrap(), None)) } else { None };
        let fr = fns.as_ref();
        let sfr = sfns.as_ref();
        let (sa, sb) = (&self.slots[&a.0], &self.slots[&b.0]);
        let (spa, spb) = (&a.1, &b.1);
        // every ownership form with the owned / borrowed source kinds; one of the operands may
        // instead have one of the other source kinds (all-references form)
        let (ba, bb) = (spa.is_basic(), spb.is_basic());
        if !ba && !bb {
            return "bad-view".into();
        }
        // `x op x` with one and the same container object
        let same_object = op != "matmul" && a.0 == b.0 && matches!(spa, ViewSpec::Own) && matches!(spb, ViewSpec::Own);
        let out: Result<AnyC<T>, PanicKind> = if same_object {
            match &sa.c {
                AnyC::T0(x) => { let v = x.clone(); catch(move || AnyC::T0(t_bin_same::<T, _, 0>(v, op, via, fr))) }
                AnyC::T1(x) => { let v = x.clone(); catch(move || AnyC::T1(t_bin_same::<T, _, 1>(v, op, via, fr))) }
                AnyC::T2(x) => { let v = x.clone(); catch(move || AnyC::T2(t_bin_same::<T, _, 2>(v, op, via, fr))) }
                AnyC::T3(x) => { let v = x.clone(); catch(move || AnyC::T3(t_bin_same::<T, _, 3>(v, op, via, fr))) }
                AnyC::M(x) => { let v = x.clone(); catch(move || AnyC::M(m_bin_same::<T, _>(v, op, via, fr))) }
            }
        } else if op == "matmul" {
            match (&sa.c, &sb.c) {
                (AnyC::T2(x), AnyC::T2(y)) if ba && bb => tview_basic!(2, x, spa, va => tview_basic!(2, y, spb, vb => catch(move || AnyC::T2(t_matmul_full::<T, _, _>(va, vb, via))))),
                (AnyC::T2(x), AnyC::T2(y)) if bb => tview_fancy!(2, x, spa, va => tview_basic!(2, y, spb, vb => catch(move || AnyC::T2(t_matmul_lite::<T, _, _>(va, vb))))),
                (AnyC::T2(x), AnyC::T2(y)) => tview_basic!(2, x, spa, va => tview_fancy!(2, y, spb, vb => catch(move || AnyC::T2(t_matmul_lite::<T, _, _>(va, vb))))),
                (AnyC::M(x), AnyC::M(y)) if ba && bb => mview_basic!(x, spa, va => mview_basic!(y, spb, vb => catch(move || AnyC::M(m_matmul_full::<T, _, _>(va, vb, via))))),
                (AnyC::M(x), AnyC::M(y)) if bb => mview_fancy!(x, spa, va => mview_basic!(y, spb, vb => catch(move || AnyC::M(m_matmul_lite::<T, _, _>(va, vb))))),
                (AnyC::M(x), AnyC::M(y)) => mview_basic!(x, spa, va => mview_fancy!(y, spb, vb => catch(move || AnyC::M(m_matmul_lite::<T, _, _>(va, vb))))),
                _ => return "bad-kind".into(),
            }
        } else {
            match (&sa.c, &sb.c) {
                (AnyC::T0(x), AnyC::T0(y)) => tview_basic!(0, x, spa, va => tview_basic!(0, y, spb, vb => catch(move || AnyC::T0(t_bin_full::<T, _, _, 0>(va, vb, op, via, fr))))),
                (AnyC::T1(x), AnyC::T1(y)) => tview_basic!(1, x, spa, va => tview_basic!(1, y, spb, vb => catch(move || AnyC::T1(t_bin_full::<T, _, _, 1>(va, vb, op, via, fr))))),
                (AnyC::T2(x), AnyC::T2(y)) if ba && bb => tview_basic!(2, x, spa, va => tview_basic!(2, y, spb, vb => catch(move || AnyC::T2(t_bin_full::<T, _, _, 2>(va, vb, op, via, fr))))),
                (AnyC::T2(x), AnyC::T2(y)) if bb => tview_fancy!(2, x, spa, va => tview_basic!(2, y, spb, vb => catch(move || AnyC::T2(t_bin_lite::<T, _, _, 2>(va, vb, op, fr))))),
                (AnyC::T2(x), AnyC::T2(y)) => tview_basic!(2, x, spa, va => tview_fancy!(2, y, spb, vb => catch(move || AnyC::T2(t_bin_lite::<T, _, _, 2>(va, vb, op, fr))))),
                (AnyC::T3(x), AnyC::T3(y)) => tview_basic!(3, x, spa, va => tview_basic!(3, y, spb, vb => catch(move || AnyC::T3(t_bin_full::<T, _, _, 3>(va, vb, op, via, fr))))),
                (AnyC::M(x), AnyC::M(y)) if ba && bb => mview_basic!(x, spa, va => mview_basic!(y, spb, vb => catch(move || AnyC::M(m_bin_full::<T, _, _>(va, vb, op, via, fr))))),
                (AnyC::M(x), AnyC::M(y)) if bb => mview_fancy!(x, spa, va => mview_basic!(y, spb, vb => catch(move || AnyC::M(m_bin_lite::<T, _, _>(va, vb, op, fr))))),
                (AnyC::M(x), AnyC::M(y)) => mview_basic!(x, spa, va => mview_fancy!(y, spb, vb => catch(move || AnyC::M(m_bin_lite::<T, _, _>(va, vb, op, fr))))),
                _ => return "bad-kind".into(),
            }
        };
        let out = match out {
            Ok(c) => c,
            Err(kind) => {
                // a panicking closure: the mirror keeps the entries of the earlier pairs too
                if sfns.is_some() && a.2 == b.2 {
                    if let (Some(ra), Some(rb)) = (self.shadow_view(&a.0, &a.3), self.shadow_view(&b.0, &b.3)) {
                        let _ = catch(|| ra.iter().zip(rb.iter()).map(|(x, y)| scalar_binary::<T>(x, y, op, sfr)).collect::<Vec<Rc<T>>>());
                    }
                }
                return panic_str(kind);
            }
        };
        let shadow: Option<Result<Vec<Rc<T>>, PanicKind>> = match (self.shadow_view(&a.0, &a.3), self.shadow_view(&b.0, &b.3)) {
            (Some(ra), Some(rb)) => Some(if op == "matmul" {
                let (m, n, l) = (a.2[0].1, a.2[1].1, b.2[1].1);
                catch(|| scalar_matmul::<T>(&ra, &rb, m, n, l))
            } else {
                catch(|| ra.iter().zip(rb.iter()).map(|(x, y)| scalar_binary::<T>(x, y, op, sfr)).collect::<Vec<Rc<T>>>())
            }),
            _ => None,
        };
        match shadow {
            Some(Ok(v)) => {
                self.put(res, out, Some(v));
                self.answer(res)
            }
            Some(Err(kind)) => {
                // the scalar computation panicked where the container one did not
                self.put(res, out, None);
                self.answer(res).replace("scalar=skip", &format!("scalar=DIFF({})", panic_str(kind)))
            }
            None => {
                self.put(res, out, None);
                self.answer(res)
            }
        }
    }

    /// writes the new scalar records of an assigning operation back through the view
    fn shadow_store(&mut self, name: &str, offs: &[usize], new: Option<Vec<Rc<T>>>) {
        let slot = self.slots.get_mut(name).unwrap();
        match (slot.shadow.as_mut(), new) {
            (Some(recs), Some(new)) => {
                for (o, r) in offs.iter().zip(new.into_iter()) {
                    recs[*o] = r;
                }
            }
            _ => slot.shadow = None,
        }
    }

    fn uassign_line(&mut self, toks: &[&str]) -> String {
        let via = opt_arg("via", toks).unwrap_or("assign");
        let (an, spec, _vs, offs) = match self.operand(toks[1]) {
            Ok(x) => x,
            Err(e) => return e,
        };
        if spec.is_shared_only() {
            return "bad-view".into();
        }
        let list = self.slots[&an].c.history();
        let fns = ufn_pair::<T>(opt_arg("fn", toks).unwrap(), list);
        let sfns = ufn_pair::<T>(opt_arg("fn", toks).unwrap(), None);
        let (f, df) = (&fns.0, &fns.1);
        macro_rules! body {
            ($v:ident, $cont:expr) => {
                catch(move || {
                    if via == "do" {
                        hit2($cont, "do_unary_assign");
                        $v.do_unary_assign(|x| f(x), |x| df(x))
                    } else {
                        hit2($cont, "unary_assign");
                        let mut v = $v;
                        v.unary_assign(|x| f(x), |x| df(x));
                        v
                    }
                })
            };
        }
        let slot = self.slots.get_mut(&an).unwrap();
        let r: Result<(), PanicKind> = match &mut slot.c {
            AnyC::T0(_) => return "bad-kind".into(),
            AnyC::T1(c) => tview_basic_mut!(1, c, &spec, v => body!(v, RT_)),
            AnyC::T2(c) => tview_mut!(2, c, &spec, v => body!(v, RT_)),
            AnyC::T3(c) => tview_basic_mut!(3, c, &spec, v => body!(v, RT_)),
            AnyC::M(c) => mview_mut!(c, &spec, v => body!(v, RM_)),
        };
        let sfr = Some(&sfns);
        let new = self
            .shadow_view(&an, &offs)
            .and_then(|recs| catch(|| recs.iter().map(|x| scalar_unary::<T>(x, "unary", None, sfr)).collect::<Vec<Rc<T>>>()).ok());
        if let Err(kind) = r {
            return panic_str(kind);
        }
        self.shadow_store(&an, &offs, new);
        self.answer(&an)
    }

    /// `lassign a b`: `a.binary_left_assign(&b, …)`; `rassign a b`: `a.binary_right_assign(&mut b, …)`
    fn bassign_line(&mut self, toks: &[&str]) -> String {
        let left = toks[0] == "lassign";
        let via = opt_arg("via", toks).unwrap_or("assign");
        let (a, b) = match (self.operand(toks[1]), self.operand(toks[2])) {
            (Ok(a), Ok(b)) => (a, b),
            (Err(e), _) | (_, Err(e)) => return e,
        };
        let list = self.slots[&a.0].c.history().or(self.slots[&b.0].c.history());
        let fns = bfn_cap::<T>(opt_arg("fn", toks).unwrap(), list);
        let sfns = bfn_cap::<T>(opt_arg("fn", toks).unwrap(), None);
        let is_boom = opt_arg("fn", toks).unwrap().starts_with("boom.");
        let (f, dfx, dfy) = (&fns.0, &fns.1, &fns.2);
        // the overwritten side is `target`, the other one is only read (through a copy, so that
        // one container can be both)
        let (target, other) = if left { (&a, &b) } else { (&b, &a) };
        let other_copy: AnyC<T> = self.slots[&other.0].c.copy();
        let (tspec, ospec) = (&target.1, &other.1);
        macro_rules! body {
            ($t:ident, $o:ident, $cont:expr) => {
                catch(move || {
                    hit2($cont, match (left, via == "do") {
                        (true, true) => "do_binary_left_assign",
                        (true, false) => "binary_left_assign",
                        (false, true) => "do_binary_right_assign",
                        (false, false) => "binary_right_assign",
                    });
                    if left {
                        if via == "do" {
                            $t.do_binary_left_assign(&$o, |x, y| f(x, y), |x, y| dfx(x, y), |x, y| dfy(x, y))
                        } else {
                            let mut t = $t;
                            t.binary_left_assign(&$o, |x, y| f(x, y), |x, y| dfx(x, y), |x, y| dfy(x, y));
                            t
                        }
                    } else if via == "do" {
                        $o.do_binary_right_assign($t, |x, y| f(x, y), |x, y| dfx(x, y), |x, y| dfy(x, y))
                    } else {
                        let mut t = $t;
                        $o.binary_right_assign(&mut t, |x, y| f(x, y), |x, y| dfx(x, y), |x, y| dfy(x, y));
                        t
                    }
                })
            };
        }
        // the `do_…` (by value) forms with the owned / borrowed source kinds only
        macro_rules! body_lite {
            ($t:ident, $o:ident, $cont:expr) => {
                catch(move || {
                    hit2($cont, if left { "binary_left_assign" } else { "binary_right_assign" });
                    let mut t = $t;
                    if left {
                        t.binary_left_assign(&$o, |x, y| f(x, y), |x, y| dfx(x, y), |x, y| dfy(x, y));
                    } else {
                        $o.binary_right_assign(&mut t, |x, y| f(x, y), |x, y| dfx(x, y), |x, y| dfy(x, y));
                    }
                    t
                })
            };
        }
        let (bt, bo) = (tspec.is_basic(), ospec.is_basic());
        if (!bt && !bo) || tspec.is_shared_only() {
            return "bad-view".into();
        }
        let slot = self.slots.get_mut(&target.0).unwrap();
        let r: Result<(), PanicKind> = match (&mut slot.c, &other_copy) {
            (AnyC::T1(c), AnyC::T1(o)) => tview_basic!(1, o, ospec, vo => tview_basic_mut!(1, c, tspec, vt => body!(vt, vo, RT_))),
            (AnyC::T2(c), AnyC::T2(o)) if bt && bo => tview_basic!(2, o, ospec, vo => tview_basic_mut!(2, c, tspec, vt => body!(vt, vo, RT_))),
            (AnyC::T2(c), AnyC::T2(o)) if bo => tview_basic!(2, o, ospec, vo => tview_fancy_mut!(2, c, tspec, vt => body_lite!(vt, vo, RT_))),
            (AnyC::T2(c), AnyC::T2(o)) => tview_fancy!(2, o, ospec, vo => tview_basic_mut!(2, c, tspec, vt => body_lite!(vt, vo, RT_))),
            (AnyC::T3(c), AnyC::T3(o)) => tview_basic!(3, o, ospec, vo => tview_basic_mut!(3, c, tspec, vt => body!(vt, vo, RT_))),
            (AnyC::M(c), AnyC::M(o)) if bt && bo => mview_basic!(o, ospec, vo => mview_basic_mut!(c, tspec, vt => body!(vt, vo, RM_))),
            (AnyC::M(c), AnyC::M(o)) if bo => mview_basic!(o, ospec, vo => mview_fancy_mut!(c, tspec, vt => body_lite!(vt, vo, RM_))),
            (AnyC::M(c), AnyC::M(o)) => mview_fancy!(o, ospec, vo => mview_basic_mut!(c, tspec, vt => body_lite!(vt, vo, RM_))),
            _ => return "bad-kind".into(),
        };
        let sfr = Some(&sfns);
        if let Err(kind) = r {
            if is_boom && a.2 == b.2 {
                if let (Some(ra), Some(rb)) = (self.shadow_view(&a.0, &a.3), self.shadow_view(&b.0, &b.3)) {
                    let _ = catch(|| ra.iter().zip(rb.iter()).map(|(x, y)| scalar_binary::<T>(x, y, "binary", sfr)).collect::<Vec<Rc<T>>>());
                }
            }
            return panic_str(kind);
        }
        let new = match (self.shadow_view(&a.0, &a.3), self.shadow_view(&b.0, &b.3)) {
            (Some(ra), Some(rb)) => {
                catch(|| ra.iter().zip(rb.iter()).map(|(x, y)| scalar_binary::<T>(x, y, "binary", sfr)).collect::<Vec<Rc<T>>>()).ok()
            }
            _ => None,
        };
        let (tn, toffs) = (target.0.clone(), target.3.clone());
        self.shadow_store(&tn, &toffs, new);
        self.answer(&tn)
    }

    fn show_inconsistent(&self, first: Option<&WengertList<T>>, later: Option<&WengertList<T>>) -> String {
        format!("err(inconsistent first={} later={})", self.tape_id(first), self.tape_id(later))
    }

    fn map_line(&mut self, toks: &[&str]) -> String {
        let via = opt_arg("via", toks).unwrap_or("map");
        let res = toks[1];
        let (an, spec, vs, offs) = match self.operand(toks[2]) {
            Ok(x) => x,
            Err(e) => return e,
        };
        let fname = opt_arg("fn", toks).unwrap();
        let f = rec_fn::<T>(fname, self.lists(false));
        let st = strides(&vs);
        let flat = move |i: &[usize]| i.iter().zip(st.iter()).map(|(x, y)| x * y).sum::<usize>();
        let cols = vs.last().map(|x| x.1).unwrap_or(1);
        let slot = &self.slots[&an];
        macro_rules! tbody {
            ($v:ident, $variant:ident) => {
                catch(|| {
                    if via == "with_index" {
                        hit2(RT_, "map_with_index");
                        $v.map_with_index(|i, x| f(flat(&i), x)).map(AnyC::$variant)
                    } else {
                        hit2(RT_, "map");
                        $v.map(|x| f(0, x)).map(AnyC::$variant)
                    }
                })
            };
        }
        let out = match &slot.c {
            AnyC::T0(_) => return "bad-kind".into(),
            AnyC::T1(c) => tview_basic!(1, c, &spec, v => tbody!(v, T1)),
            AnyC::T2(c) => tview!(2, c, &spec, v => tbody!(v, T2)),
            AnyC::T3(c) => tview_basic!(3, c, &spec, v => tbody!(v, T3)),
            AnyC::M(c) => mview!(c, &spec, v => catch(|| {
                if via == "with_index" {
                    hit2(RM_, "map_with_index");
                    v.map_with_index(|x, r, c| f(r * cols + c, x)).map(AnyC::M)
                } else {
                    hit2(RM_, "map");
                    v.map(|x| f(0, x)).map(AnyC::M)
                }
            })),
        };
        // the scalar mirror runs the function too (its tape effects happen in any case)
        let sf = rec_fn::<T>(fname, self.lists(true));
        let shadow = self
            .shadow_view(&an, &offs)
            .and_then(|recs| catch(|| recs.into_iter().enumerate().map(|(k, x)| sf(k, x)).collect::<Vec<Rc<T>>>()).ok());
        match out {
            Err(kind) => panic_str(kind),
            Ok(Err(e)) => {
                // the error's `Display` names both histories; its derived `Clone` / `Debug`
                hit("impl~fmt::Display~for~InconsistentHistory<T>::fmt");
                hit("derive~Clone~for~InconsistentHistory");
                hit("derive~Debug~for~InconsistentHistory");
                let e = e.clone();
                if !format!("{:?}", e).contains("InconsistentHistory") {
                    complain("debug-of-InconsistentHistory".into());
                }
                let as_error: &dyn std::error::Error = &e;
                if as_error.to_string() != format!("{}", e) {
                    complain("error-trait-object-of-InconsistentHistory".into());
                }
                let text = format!("{}", e);
                if text.starts_with("First history was") {
                    self.show_inconsistent(e.first, e.later)
                } else {
                    format!("err(display: {})", text)
                }
            }
            Ok(Ok(c)) => {
                self.put(res, c, shadow);
                self.answer(res)
            }
        }
    }

    fn mapmut_line(&mut self, toks: &[&str]) -> String {
        let via = opt_arg("via", toks).unwrap_or("map_mut");
        let (an, spec, vs, offs) = match self.operand(toks[1]) {
            Ok(x) => x,
            Err(e) => return e,
        };
        if spec.is_shared_only() {
            return "bad-view".into();
        }
        let fname = opt_arg("fn", toks).unwrap();
        let f = rec_fn::<T>(fname, self.lists(false));
        let sf = rec_fn::<T>(fname, self.lists(true));
        let st = strides(&vs);
        let flat = move |i: &[usize]| i.iter().zip(st.iter()).map(|(x, y)| x * y).sum::<usize>();
        let cols = vs.last().map(|x| x.1).unwrap_or(1);
        let mut err: Option<(Option<&'static WengertList<T>>, Option<&'static WengertList<T>>)> = None;
        let errp = &mut err;
        let fp = &f;
        let flatp = &flat;
        macro_rules! tbody {
            ($v:ident) => {
                catch(move || {
                    let mut v = $v;
                    hit2(RT_, if via == "with_index" { "map_mut_with_index" } else { "map_mut" });
                    let r = if via == "with_index" { v.map_mut_with_index(|i, x| fp(flatp(&i), x)) } else { v.map_mut(|x| fp(0, x)) };
                    if let Err(e) = r {
                        *errp = Some((e.first, e.later));
                    }
                    v
                })
            };
        }
        let slot = self.slots.get_mut(&an).unwrap();
        let r: Result<(), PanicKind> = match &mut slot.c {
            AnyC::T0(_) => return "bad-kind".into(),
            AnyC::T1(c) => tview_basic_mut!(1, c, &spec, v => tbody!(v)),
            AnyC::T2(c) => tview_mut!(2, c, &spec, v => tbody!(v)),
            AnyC::T3(c) => tview_basic_mut!(3, c, &spec, v => tbody!(v)),
            AnyC::M(c) => mview_mut!(c, &spec, v => catch(move || {
                let mut v = v;
                hit2(RM_, if via == "with_index" { "map_mut_with_index" } else { "map_mut" });
                let r = if via == "with_index" { v.map_mut_with_index(|x, r, c| fp(r * cols + c, x)) } else { v.map_mut(|x| fp(0, x)) };
                if let Err(e) = r {
                    *errp = Some((e.first, e.later));
                }
                v
            })),
        };
        if let Err(kind) = r {
            // the closure panicked: the mirror processes the same elements; through a view the
            // elements processed so far have been overwritten in place (an owned operand was
            // handed over by value: the stored copy is untouched)
            if let Some(recs) = self.shadow_view(&an, &offs) {
                let mut done: Vec<Rc<T>> = vec![];
                for (k, x) in recs.into_iter().enumerate() {
                    match catch(|| sf(k, x)) {
                        Ok(y) => done.push(y),
                        Err(_) => break,
                    }
                }
                if !matches!(spec, ViewSpec::Own) {
                    if let Some(stored) = self.slots.get_mut(&an).unwrap().shadow.as_mut() {
                        for (o, y) in offs.iter().zip(done.into_iter()) {
                            stored[*o] = y;
                        }
                    }
                }
            }
            return panic_str(kind);
        }
        let new = self
            .shadow_view(&an, &offs)
            .and_then(|recs| catch(|| recs.into_iter().enumerate().map(|(k, x)| sf(k, x)).collect::<Vec<Rc<T>>>()).ok());
        self.shadow_store(&an, &offs, new);
        match err {
            None => self.answer(&an),
            Some((first, later)) => {
                self.slots.get_mut(&an).unwrap().mixed = true;
                format!("{} {}", self.show_inconsistent(first, later), self.answer(&an))
            }
        }
    }

    /// the records an operand yields (`iter_as_records` in the requested order)
    /// `ctor`: `plain` (the container's method), `ctor` (`AsRecords::from_tensor` /
    /// `from_matrix_row_major` / `from_matrix_column_major`), `from` (`AsRecords::from` over the
    /// library's iterator of `(number, index)` pairs)
    fn records_of(&self, name: &str, spec: &ViewSpec, order: &str, ctor: &str) -> Vec<Rc<T>> {
        use easy_ml::differentiation::iterators::AsRecords;
        use easy_ml::matrices::iterators::{ColumnMajorIterator, RowMajorIterator};
        use easy_ml::tensors::indexing::TensorIterator;
        let slot = &self.slots[name];
        hit("impl~Iterator~for~AsRecords<I,T>::next");
        hit("impl~Iterator~for~AsRecords<I,T>::size_hint");
        hit("impl~ExactSizeIterator~for~AsRecords<I,T>");
        macro_rules! tbody {
            ($v:ident) => {
                match ctor {
                    "ctor" => {
                        hit("AsRecords<TensorIterator<(T,Index),RecordTensor<T,S,D>,D>,T>::from_tensor");
                        drain_checked(AsRecords::from_tensor(&$v), "AsRecords")
                    }
                    "from" => {
                        hit("AsRecords<I,T>::from");
                        hit(HISTORY_);
                        drain_checked(AsRecords::from($v.history(), TensorIterator::from(&$v)), "AsRecords")
                    }
                    _ => {
                        hit2(RT_, "iter_as_records");
                        drain_checked($v.iter_as_records(), "AsRecords")
                    }
                }
            };
        }
        let mut recs: Vec<Rc<T>> = match &slot.c {
            AnyC::T0(c) => tview_basic!(0, c, spec, v => tbody!(v)),
            AnyC::T1(c) => tview_basic!(1, c, spec, v => tbody!(v)),
            AnyC::T2(c) => tview!(2, c, spec, v => tbody!(v)),
            AnyC::T3(c) => tview_basic!(3, c, spec, v => tbody!(v)),
            AnyC::M(c) => mview!(c, spec, v => match (ctor, order == "cm") {
                ("ctor", true) => {
                    hit("AsRecords<ColumnMajorIterator<(T,Index),RecordMatrix<T,S>>,T>::from_matrix_column_major");
                    drain_checked(AsRecords::from_matrix_column_major(&v), "AsRecords")
                }
                ("ctor", false) => {
                    hit("AsRecords<RowMajorIterator<(T,Index),RecordMatrix<T,S>>,T>::from_matrix_row_major");
                    drain_checked(AsRecords::from_matrix_row_major(&v), "AsRecords")
                }
                ("from", true) => {
                    hit("AsRecords<I,T>::from");
                    drain_checked(AsRecords::from(v.history(), ColumnMajorIterator::from(&v)), "AsRecords")
                }
                ("from", false) => {
                    hit("AsRecords<I,T>::from");
                    drain_checked(AsRecords::from(v.history(), RowMajorIterator::from(&v)), "AsRecords")
                }
                (_, true) => {
                    hit2(RM_, "iter_column_major_as_records");
                    drain_checked(v.iter_column_major_as_records(), "AsRecords")
                }
                (_, false) => {
                    hit2(RM_, "iter_row_major_as_records");
                    drain_checked(v.iter_row_major_as_records(), "AsRecords")
                }
            }),
        };
        if order == "rev" {
            recs.reverse();
        }
        recs
    }

    /// the records an operand yields together with their indexes (`with_index()` or the `From`
    /// conversion), as (row-major position of the index, record)
    fn indexed_records_of(&self, name: &str, spec: &ViewSpec, vs: &Sh, via: &str) -> Vec<(usize, Rc<T>)> {
        use easy_ml::differentiation::iterators::AsRecords;
        use easy_ml::matrices::iterators::{RowMajorIterator, WithIndex};
        use easy_ml::tensors::indexing::TensorIterator;
        let slot = &self.slots[name];
        let st = strides(vs);
        let flat = |i: &[usize]| i.iter().zip(st.iter()).map(|(x, y)| x * y).sum::<usize>();
        let cols = vs.last().map(|x| x.1).unwrap_or(1);
        hit("impl~Iterator~for~WithIndex<AsRecords<I,T>>::next");
        hit("impl~Iterator~for~WithIndex<AsRecords<I,T>>::size_hint");
        hit("impl~ExactSizeIterator~for~WithIndex<AsRecords<I,T>>");
        macro_rules! tbody {
            ($v:ident) => {{
                hit2(RT_, "iter_as_records");
                if via == "from_with_index" {
                    // the constructor is public, its result has no public way of being iterated
                    hit("AsRecords<I,T>::from_with_index");
                    let _ = AsRecords::from_with_index($v.history(), TensorIterator::from(&$v).with_index());
                }
                if via == "into" {
                    hit("impl~From<AsRecords<I,T>>~for~WithIndex<AsRecords<WithIndex<I>,T>>::from");
                    let w: WithIndex<_> = $v.iter_as_records().into();
                    drain_checked(w, "WithIndex<AsRecords>").into_iter().map(|(i, r)| (flat(&i), r)).collect()
                } else {
                    hit("AsRecords<I,T>::with_index");
                    drain_checked($v.iter_as_records().with_index(), "WithIndex<AsRecords>").into_iter().map(|(i, r)| (flat(&i), r)).collect()
                }
            }};
        }
        match &slot.c {
            AnyC::T0(c) => tview_basic!(0, c, spec, v => tbody!(v)),
            AnyC::T1(c) => tview_basic!(1, c, spec, v => tbody!(v)),
            AnyC::T2(c) => tview!(2, c, spec, v => tbody!(v)),
            AnyC::T3(c) => tview_basic!(3, c, spec, v => tbody!(v)),
            AnyC::M(c) => mview!(c, spec, v => {
                hit2(RM_, "iter_row_major_as_records");
                if via == "from_with_index" {
                    hit("AsRecords<I,T>::from_with_index");
                    let _ = AsRecords::from_with_index(v.history(), RowMajorIterator::from(&v).with_index());
                }
                if via == "into" {
                    hit("impl~From<AsRecords<I,T>>~for~WithIndex<AsRecords<WithIndex<I>,T>>::from");
                    let w: WithIndex<_> = v.iter_row_major_as_records().into();
                    drain_checked(w, "WithIndex<AsRecords>").into_iter().map(|((r, c), x)| (r * cols + c, x)).collect()
                } else {
                    hit("AsRecords<I,T>::with_index");
                    drain_checked(v.iter_row_major_as_records().with_index(), "WithIndex<AsRecords>").into_iter().map(|((r, c), x)| (r * cols + c, x)).collect()
                }
            }),
        }
    }

    fn column_major<X: Clone>(shape: &Sh, l: &[X]) -> Vec<X> {
        if shape.len() != 2 {
            return l.to_vec();
        }
        let (r, c) = (shape[0].1, shape[1].1);
        let mut out = vec![];
        for j in 0..c {
            for i in 0..r {
                out.push(l[i * c + j].clone());
            }
        }
        out
    }

    fn build_from_iter(to_matrix: bool, shape: &Sh, recs: Box<dyn Iterator<Item = Rc<T>> + '_>) -> Result<Result<AnyC<T>, String>, PanicKind> {
        use easy_ml::differentiation::iterators::InvalidRecordIteratorError as E;
        macro_rules! conv {
            ($r:expr, $variant:ident) => {
                match $r {
                    Ok(c) => Ok(AnyC::$variant(c)),
                    Err(e) if !iter_error_display_ok(&e) => Err("err(display)".to_string()),
                    Err(E::Shape { .. }) => Err("err(shape)".to_string()),
                    Err(E::Empty) => Err("err(empty)".to_string()),
                    Err(E::InconsistentHistory(h)) => Err(format!("INC {:?} {:?}", h.first.map(|x| x as *const _ as usize), h.later.map(|x| x as *const _ as usize))),
                }
            };
        }
        hit(if to_matrix { "RecordMatrix<T,Matrix<(T,Index)>>::from_iter" } else { "RecordTensor<T,Tensor<(T,Index),D>,D>::from_iter" });
        catch(move || {
            if to_matrix {
                conv!(RecordMatrix::from_iter((shape[0].1, shape[1].1), recs), M)
            } else {
                match shape.len() {
                    0 => conv!(RecordTensor::from_iter(shape_array::<0>(shape), recs), T0),
                    1 => conv!(RecordTensor::from_iter(shape_array::<1>(shape), recs), T1),
                    2 => conv!(RecordTensor::from_iter(shape_array::<2>(shape), recs), T2),
                    3 => conv!(RecordTensor::from_iter(shape_array::<3>(shape), recs), T3),
                    _ => panic!("harness: dimensionality"),
                }
            }
        })
    }

    /// rewrites the address form of an inconsistent-history error into tape ids
    fn fix_inc(&self, s: String) -> String {
        if let Some(rest) = s.strip_prefix("INC ") {
            let parts: Vec<&str> = rest.split(' ').collect();
            let id = |p: &str| -> String {
                if p == "None" {
                    return "none".into();
                }
                let addr: usize = p.trim_start_matches("Some(").trim_end_matches(')').parse().unwrap_or(0);
                (0..self.tapes.len())
                    .find(|&t| self.tapes[t].get() as *const _ as usize == addr)
                    .map(|t| t.to_string())
                    .unwrap_or_else(|| "?".into())
            };
            format!("err(inconsistent first={} later={})", id(parts[0]), id(parts[1]))
        } else {
            s
        }
    }

    fn fromiter_line(&mut self, toks: &[&str]) -> String {
        let res = toks[1];
        let (an, spec, vs, offs) = match self.operand(toks[2]) {
            Ok(x) => x,
            Err(e) => return e,
        };
        let to_matrix = opt_arg("to", toks) == Some("M");
        let shape = parse_shape(opt_arg("shape", toks).unwrap());
        let order = opt_arg("order", toks).unwrap_or("rm");
        let fname = opt_arg("fn", toks).unwrap_or("id");
        let take: Option<usize> = opt_arg("take", toks).map(|s| s.parse().unwrap());
        let chain = match opt_arg("chain", toks) {
            None => None,
            Some(tok) => match self.operand(tok) {
                Ok(x) => Some(x),
                Err(e) => return e,
            },
        };
        let f = rec_fn::<T>(fname, self.lists(false));
        let sf = rec_fn::<T>(fname, self.lists(true));
        // main: the records of the operand(s) as the library's iterators yield them
        let via = opt_arg("via", toks).unwrap_or("plain");
        let indexed = via == "with_index" || via == "into" || via == "from_with_index";
        let mut recs: Vec<(usize, Rc<T>)> = if indexed {
            self.indexed_records_of(&an, &spec, &vs, via)
        } else {
            self.records_of(&an, &spec, order, via).into_iter().map(|r| (0, r)).collect()
        };
        if let Some(c) = &chain {
            recs.extend(self.records_of(&c.0, &c.1, "rm", via).into_iter().map(|r| (0, r)));
        }
        let n = take.unwrap_or(recs.len());
        let iter: Box<dyn Iterator<Item = Rc<T>>> = Box::new(recs.into_iter().take(n).map(move |(k, x)| f(k, x)));
        let out = Self::build_from_iter(to_matrix, &shape, iter);
        // mirror
        let shadow = self.shadow_view(&an, &offs).and_then(|a| {
            let mut a = match order {
                "cm" => Self::column_major(&vs, &a),
                "rev" => a.into_iter().rev().collect(),
                _ => a,
            };
            if let Some(c) = &chain {
                a.extend(self.shadow_view(&c.0, &c.3)?);
            }
            catch(|| a.into_iter().take(n).enumerate().map(|(k, x)| sf(if indexed { k } else { 0 }, x)).collect::<Vec<Rc<T>>>()).ok()
        });
        match out {
            Err(kind) => panic_str(kind),
            Ok(Err(e)) => self.fix_inc(e),
            Ok(Ok(c)) => {
                self.put(res, c, shadow);
                format!("ok {}", self.answer(res))
            }
        }
    }

    fn fromiters_line(&mut self, toks: &[&str]) -> String {
        use easy_ml::differentiation::iterators::InvalidRecordIteratorError as E;
        let names: Vec<&str> = split_comma(toks[1]);
        let (an, spec, _vs, offs) = match self.operand(toks[2]) {
            Ok(x) => x,
            Err(e) => return e,
        };
        let to_matrix = opt_arg("to", toks) == Some("M");
        let shape = parse_shape(opt_arg("shape", toks).unwrap());
        let fnames: Vec<&str> = split_comma(opt_arg("fn", toks).unwrap());
        if names.len() != 2 || fnames.len() != 2 {
            return "bad-op".into();
        }
        let (f1, f2) = (rec_fn::<T>(fnames[0], self.lists(false)), rec_fn::<T>(fnames[1], self.lists(false)));
        let (s1, s2) = (rec_fn::<T>(fnames[0], self.lists(true)), rec_fn::<T>(fnames[1], self.lists(true)));
        let recs = self.records_of(&an, &spec, "rm", opt_arg("via", toks).unwrap_or("plain"));
        let iter = recs.into_iter().map(move |x| {
            let y1 = f1(0, x.clone());
            let y2 = f2(0, x);
            [y1, y2]
        });
        macro_rules! conv {
            ($r:expr, $variant:ident) => {
                $r.map(|one| match one {
                    Ok(c) => Ok(AnyC::$variant(c)),
                    Err(e) if !iter_error_display_ok(&e) => Err("err(display)".to_string()),
                    Err(E::Shape { .. }) => Err("err(shape)".to_string()),
                    Err(E::Empty) => Err("err(empty)".to_string()),
                    Err(E::InconsistentHistory(h)) => Err(format!("INC {:?} {:?}", h.first.map(|x| x as *const _ as usize), h.later.map(|x| x as *const _ as usize))),
                })
            };
        }
        let shape_ref = &shape;
        hit(if to_matrix { "RecordMatrix<T,Matrix<(T,Index)>>::from_iters" } else { "RecordTensor<T,Tensor<(T,Index),D>,D>::from_iters" });
        let out: Result<[Result<AnyC<T>, String>; 2], PanicKind> = catch(move || {
            if to_matrix {
                conv!(RecordMatrix::from_iters::<_, 2>((shape_ref[0].1, shape_ref[1].1), iter), M)
            } else {
                match shape_ref.len() {
                    0 => conv!(RecordTensor::from_iters::<_, 2>(shape_array::<0>(shape_ref), iter), T0),
                    1 => conv!(RecordTensor::from_iters::<_, 2>(shape_array::<1>(shape_ref), iter), T1),
                    2 => conv!(RecordTensor::from_iters::<_, 2>(shape_array::<2>(shape_ref), iter), T2),
                    3 => conv!(RecordTensor::from_iters::<_, 2>(shape_array::<3>(shape_ref), iter), T3),
                    _ => panic!("harness: dimensionality"),
                }
            }
        });
        let shadow: Option<(Vec<Rc<T>>, Vec<Rc<T>>)> = self.shadow_view(&an, &offs).and_then(|a| {
            catch(|| {
                let mut l1 = vec![];
                let mut l2 = vec![];
                for x in a {
                    l1.push(s1(0, x.clone()));
                    l2.push(s2(0, x));
                }
                (l1, l2)
            })
            .ok()
        });
        let out = match out {
            Err(kind) => return panic_str(kind),
            Ok(o) => o,
        };
        let (sh1, sh2) = match shadow {
            Some((a, b)) => (Some(a), Some(b)),
            None => (None, None),
        };
        let mut answers = vec![];
        for ((r, n), sh) in out.into_iter().zip(names.iter()).zip([sh1, sh2].into_iter()) {
            answers.push(match r {
                Err(e) => self.fix_inc(e),
                Ok(c) => {
                    self.put(n, c, sh);
                    format!("ok {}", self.answer(n))
                }
            });
        }
        answers.join(" | ")
    }

    fn reset_line(&mut self, toks: &[&str]) -> String {
        let via = opt_arg("via", toks).unwrap_or("reset");
        let (an, spec, _vs, offs) = match self.operand(toks[1]) {
            Ok(x) => x,
            Err(e) => return e,
        };
        if spec.is_shared_only() {
            return "bad-view".into();
        }
        let slot = self.slots.get_mut(&an).unwrap();
        macro_rules! body {
            ($v:ident, $Ty:ident) => {
                catch(move || {
                    let cont = if stringify!($Ty) == "RecordTensor" { RT_ } else { RM_ };
                    if via == "do_reset" {
                        hit2(cont, "do_reset");
                        $Ty::do_reset($v)
                    } else {
                        hit2(cont, "reset");
                        let mut v = $v;
                        v.reset();
                        v
                    }
                })
            };
        }
        let r: Result<(), PanicKind> = match &mut slot.c {
            AnyC::T0(c) => tview_basic_mut!(0, c, &spec, v => body!(v, RecordTensor)),
            AnyC::T1(c) => tview_basic_mut!(1, c, &spec, v => body!(v, RecordTensor)),
            AnyC::T2(c) => tview_mut!(2, c, &spec, v => body!(v, RecordTensor)),
            AnyC::T3(c) => tview_basic_mut!(3, c, &spec, v => body!(v, RecordTensor)),
            AnyC::M(c) => mview_mut!(c, &spec, v => body!(v, RecordMatrix)),
        };
        if let Err(kind) = r {
            return panic_str(kind);
        }
        let new = self.shadow_view(&an, &offs).and_then(|recs| {
            catch(|| {
                recs.into_iter()
                    .map(|mut x| {
                        x.reset();
                        x
                    })
                    .collect::<Vec<Rc<T>>>()
            })
            .ok()
        });
        self.shadow_store(&an, &offs, new);
        self.answer(&an)
    }

    fn clear_line(&mut self, toks: &[&str]) -> String {
        let t: usize = opt_arg("t", toks).map(|s| s.parse().unwrap()).unwrap_or(0);
        if let Err(kind) = catch(|| self.tapes[t].get().clear()) {
            return panic_str(kind);
        }
        self.stapes[t].get().clear();
        "ok".into()
    }

    /// `d[x]` for every element `x` of the input operand, through the container API
    fn at_all(&self, d: &Derivatives<T>, name: &str, spec: &ViewSpec, via: &str) -> Result<Vec<T>, PanicKind> {
        let slot = &self.slots[name];
        macro_rules! tbody {
            ($v:ident) => {
                catch(|| {
                    if via == "for" {
                        hit("Derivatives<T>::at_tensor_index");
                        let lens: Vec<usize> = $v.shape().iter().map(|x| x.1).collect();
                        all_indexes(&lens).iter().map(|i| d.at_tensor_index(to_array(i), &$v).expect("index in range")).collect::<Vec<T>>()
                    } else {
                        hit("Derivatives<T>::at_tensor");
                        d.at_tensor(&$v).iter().collect::<Vec<T>>()
                    }
                })
            };
        }
        match &slot.c {
            AnyC::T0(c) => tview_basic!(0, c, spec, v => tbody!(v)),
            AnyC::T1(c) => tview_basic!(1, c, spec, v => tbody!(v)),
            AnyC::T2(c) => tview!(2, c, spec, v => tbody!(v)),
            AnyC::T3(c) => tview_basic!(3, c, spec, v => tbody!(v)),
            AnyC::M(c) => mview!(c, spec, v => catch(|| {
                if via == "for" {
                    hit("Derivatives<T>::at_matrix_index");
                    hit("RecordMatrix<T,S>::size");
                    let (r, k) = v.size();
                    let mut out = vec![];
                    for i in 0..r {
                        for j in 0..k {
                            out.push(d.at_matrix_index(i, j, &v).expect("index in range"));
                        }
                    }
                    out
                } else {
                    hit("Derivatives<T>::at_matrix");
                    d.at_matrix(&v).row_major_iter().collect::<Vec<T>>()
                }
            })),
        }
    }

    fn derivs_line(&mut self, toks: &[&str]) -> String {
        let via = opt_arg("via", toks).unwrap_or("all");
        let (on, ospec, _ovs, ooffs) = match self.operand(toks[1]) {
            Ok(x) => x,
            Err(e) => return e,
        };
        let mut wrt = vec![];
        for tok in split_comma(opt_arg("wrt", toks).unwrap_or("-")) {
            match self.operand(tok) {
                Ok(x) => wrt.push(x),
                Err(e) => return e,
            }
        }
        // one `Derivatives` per output element, in row-major order of the view
        let slot = &self.slots[&on];
        macro_rules! tbody {
            ($v:ident) => {
                catch(|| {
                    if via == "for" {
                        hit2(RT_, "derivatives_for");
                        let lens: Vec<usize> = $v.shape().iter().map(|x| x.1).collect();
                        all_indexes(&lens).iter().map(|i| $v.derivatives_for(to_array(i))).collect::<Option<Vec<Derivatives<T>>>>()
                    } else {
                        hit2(RT_, "derivatives");
                        $v.derivatives().map(|t| t.iter_reference().cloned().collect::<Vec<Derivatives<T>>>())
                    }
                })
            };
        }
        let ds: Result<Option<Vec<Derivatives<T>>>, PanicKind> = match &slot.c {
            AnyC::T0(c) => tview_basic!(0, c, &ospec, v => tbody!(v)),
            AnyC::T1(c) => tview_basic!(1, c, &ospec, v => tbody!(v)),
            AnyC::T2(c) => tview!(2, c, &ospec, v => tbody!(v)),
            AnyC::T3(c) => tview_basic!(3, c, &ospec, v => tbody!(v)),
            AnyC::M(c) => mview!(c, &ospec, v => catch(|| {
                if via == "for" {
                    hit2(RM_, "derivatives_for");
                    hit2(RM_, "size");
                    let (r, k) = v.size();
                    let mut out = vec![];
                    for i in 0..r {
                        for j in 0..k {
                            out.push(v.derivatives_for(i, j));
                        }
                    }
                    out.into_iter().collect::<Option<Vec<Derivatives<T>>>>()
                } else {
                    hit2(RM_, "derivatives");
                    v.derivatives().map(|m| m.row_major_reference_iter().cloned().collect::<Vec<Derivatives<T>>>())
                }
            })),
        };
        let ds = match ds {
            Err(kind) => return panic_str(kind),
            Ok(None) => return "none".into(),
            Ok(Some(ds)) => ds,
        };
        let mut table: Vec<Vec<Vec<T>>> = vec![];
        for d in &ds {
            let mut per_out = vec![];
            for w in &wrt {
                match self.at_all(d, &w.0, &w.1, via) {
                    Ok(v) => per_out.push(v),
                    Err(kind) => return panic_str(kind),
                }
            }
            table.push(per_out);
        }
        // the same with the scalar mirror
        let scalar = (|| -> Option<Result<Vec<Vec<Vec<T>>>, PanicKind>> {
            let outs = self.shadow_view(&on, &ooffs)?;
            let mut ins = vec![];
            for w in &wrt {
                ins.push(self.shadow_view(&w.0, &w.3)?);
            }
            Some(catch(|| {
                outs.iter()
                    .map(|y| {
                        let d = y.derivatives();
                        ins.iter().map(|xs| xs.iter().map(|x| d[x].clone()).collect::<Vec<T>>()).collect::<Vec<Vec<T>>>()
                    })
                    .collect::<Vec<Vec<Vec<T>>>>()
            }))
        })();
        let show = |t: &Vec<Vec<Vec<T>>>| {
            t.iter().map(|per_out| per_out.iter().map(|l| show_list(l)).collect::<Vec<_>>().join(";")).collect::<Vec<_>>().join("|")
        };
        let verdict = match scalar {
            None => "skip".to_string(),
            Some(Ok(st)) => {
                if st.len() == table.len()
                    && st.iter().zip(table.iter()).all(|(a, b)| a.len() == b.len() && a.iter().zip(b.iter()).all(|(x, y)| same::<T>(x, y)))
                {
                    "ok".to_string()
                } else {
                    format!("DIFF({})", show(&st))
                }
            }
            Some(Err(kind)) => format!("DIFF({})", panic_str(kind)),
        };
        // every derivative set has one entry per tape entry
        let len = Vec::<T>::from(ds[0].clone()).len();
        format!("len={} d={} scalar={}", len, show(&table), verdict)
    }

    /// `elem z a[/acc.<perm>] <indexes> via=<index_by|owned|mut|matrix>.<get|try>.<val|ref>`
    fn elem_line(&mut self, toks: &[&str]) -> String {
        let res = toks[1];
        let (n, spec) = match parse_operand(toks[2]) {
            Some(x) => x,
            None => return "bad-ref".into(),
        };
        let n = n.to_string();
        let (shape, is_matrix) = match self.slots.get(&n) {
            Some(slot) => (slot.c.shape(), slot.c.is_matrix()),
            None => return "bad-ref".into(),
        };
        if !matches!(spec, ViewSpec::Own | ViewSpec::Acc(_)) {
            return "bad-view".into();
        }
        let (vs, offs) = match view_of(&shape, &spec, is_matrix) {
            Some(x) => x,
            None => return "bad-ref".into(),
        };
        let idx = parse_usizes(toks[3]);
        let via: Vec<&str> = opt_arg("via", toks).unwrap_or("index_by.get.val").split('.').collect();
        let (access, form, conv) = (via[0], via.get(1).copied().unwrap_or("get"), via.get(2).copied().unwrap_or("val"));
        // the position the index designates in the access order (None: out of range)
        let pos: Option<usize> = if idx.len() == vs.len() && idx.iter().zip(vs.iter()).all(|(i, d)| *i < d.1) {
            Some(idx.iter().zip(strides(&vs).iter()).map(|(i, s)| i * s).sum())
        } else {
            None
        };
        let slot = self.slots.get_mut(&n).unwrap();
        let got: Result<Option<Rc<T>>, PanicKind> = if idx.len() != vs.len() {
            if form == "try" { Ok(None) } else { Err(PanicKind::Explicit) }
        } else {
            match &mut slot.c {
                AnyC::T0(c) => elem_t::<T, 0>(c, &spec, &idx, access, form),
                AnyC::T1(c) => elem_t::<T, 1>(c, &spec, &idx, access, form),
                AnyC::T2(c) => elem_t::<T, 2>(c, &spec, &idx, access, form),
                AnyC::T3(c) => elem_t::<T, 3>(c, &spec, &idx, access, form),
                AnyC::M(c) => {
                    let c = &*c;
                    hit2(RM_, if form == "try" { "try_get_as_record" } else { "get_as_record" });
                    catch(|| if form == "try" { c.try_get_as_record(idx[0], idx[1]) } else { Some(c.get_as_record(idx[0], idx[1])) })
                }
            }
        };
        let rec = match got {
            Err(kind) => return panic_str(kind),
            Ok(None) => return "none".into(),
            Ok(Some(r)) => r,
        };
        let (number, index, is_const) = (rec.number.clone(), rec.index, rec.history().is_none());
        let srec: Option<Rc<T>> = match (pos, self.shadow_view(&n, &offs)) {
            (Some(k), Some(recs)) => recs.get(k).cloned(),
            _ => None,
        };
        let scalar = match &srec {
            None => "skip".to_string(),
            Some(sr) => {
                if sr.number.eqv(&number) && sr.history().is_none() == is_const {
                    "ok".to_string()
                } else {
                    format!("DIFF(v={},const={})", sr.number, if sr.history().is_none() { 1 } else { 0 })
                }
            }
        };
        hit(if conv == "ref" { "impl~From<&Record<T>>~for~RecordTensor<T,Tensor<(T,Index),0>,0>::from" } else { "impl~From<Record<T>>~for~RecordTensor<T,Tensor<(T,Index),0>,0>::from" });
        let z: RT<T, 0> = if conv == "ref" { RecordTensor::from(&rec) } else { RecordTensor::from(rec) };
        self.put(res, AnyC::T0(z), srec.map(|r| vec![r]));
        format!("v={} const={} scalar={} idx={}", number, if is_const { 1 } else { 0 }, scalar, index)
    }

    /// `scalar y z via=<val|ref>.<val|ref>`: 0-dimensional tensor -> `Record` -> 0-dimensional tensor
    fn scalar_line(&mut self, toks: &[&str]) -> String {
        let res = toks[1];
        let (n, _spec, _vs, offs) = match self.operand(toks[2]) {
            Ok(x) => x,
            Err(e) => return e,
        };
        let via: Vec<&str> = opt_arg("via", toks).unwrap_or("val.val").split('.').collect();
        let z = match &self.slots[&n].c {
            AnyC::T0(c) => {
                hit(if via[0] == "ref" { "impl~From<&RecordTensor<T,S,0>>~for~Record<T>::from" } else { "impl~From<RecordTensor<T,S,0>>~for~Record<T>::from" });
                let rec: Rc<T> = if via[0] == "ref" { Record::from(c) } else { Record::from(c.clone()) };
                hit(if via.get(1) == Some(&"ref") { "impl~From<&Record<T>>~for~RecordTensor<T,Tensor<(T,Index),0>,0>::from" } else { "impl~From<Record<T>>~for~RecordTensor<T,Tensor<(T,Index),0>,0>::from" });
                let z: RT<T, 0> = if via.get(1) == Some(&"ref") { RecordTensor::from(&rec) } else { RecordTensor::from(rec) };
                z
            }
            _ => return "panic(unwrap)".into(),
        };
        let shadow = self.shadow_view(&n, &offs);
        self.put(res, AnyC::T0(z), shadow);
        self.answer(res)
    }

    /// `swap a <indexes> <indexes>`: two elements exchanged through the container's `TensorMut` /
    /// `MatrixMut` implementation
    fn swap_line(&mut self, toks: &[&str]) -> String {
        let (n, spec, vs, offs) = match self.operand(toks[1]) {
            Ok(x) => x,
            Err(e) => return e,
        };
        if !matches!(spec, ViewSpec::Own) {
            return "bad-view".into();
        }
        let (i, j) = (parse_usizes(toks[2]), parse_usizes(toks[3]));
        let slot = self.slots.get_mut(&n).unwrap();
        macro_rules! tswap {
            ($c:ident, $D:literal) => {{
                if i.len() != $D || j.len() != $D {
                    false
                } else {
                    let (ai, aj): ([usize; $D], [usize; $D]) = (to_array(&i), to_array(&j));
                    hit("impl~TensorMut<(T,Index),D>~for~RecordTensor<T,S,D>::get_reference_mut");
                    hit("impl~TensorMut<(T,Index),D>~for~RecordTensor<T,S,D>::get_reference_unchecked_mut");
                    let a = TensorMut::get_reference_mut($c, ai).map(|x| x.clone());
                    let b = TensorMut::get_reference_mut($c, aj).map(|x| x.clone());
                    match (a, b) {
                        (Some(a), Some(b)) => {
                            *TensorMut::get_reference_mut($c, ai).unwrap() = b;
                            // both indexes were just found to be in range
                            unsafe {
                                *TensorMut::get_reference_unchecked_mut($c, aj) = a;
                            }
                            true
                        }
                        _ => false,
                    }
                }
            }};
        }
        let done = match &mut slot.c {
            AnyC::T0(c) => tswap!(c, 0),
            AnyC::T1(c) => tswap!(c, 1),
            AnyC::T2(c) => tswap!(c, 2),
            AnyC::T3(c) => tswap!(c, 3),
            AnyC::M(c) => {
                if i.len() != 2 || j.len() != 2 {
                    false
                } else {
                    hit("impl~MatrixMut<(T,Index)>~for~RecordMatrix<T,S>::try_get_reference_mut");
                    hit("impl~MatrixMut<(T,Index)>~for~RecordMatrix<T,S>::get_reference_unchecked_mut");
                    let a = MatrixMut::try_get_reference_mut(c, i[0], i[1]).map(|x| x.clone());
                    let b = MatrixMut::try_get_reference_mut(c, j[0], j[1]).map(|x| x.clone());
                    match (a, b) {
                        (Some(a), Some(b)) => {
                            *MatrixMut::try_get_reference_mut(c, i[0], i[1]).unwrap() = b;
                            // both indexes were just found to be in range
                            unsafe {
                                *MatrixMut::get_reference_unchecked_mut(c, j[0], j[1]) = a;
                            }
                            true
                        }
                        _ => false,
                    }
                }
            }
        };
        if !done {
            return "none".into();
        }
        let st = strides(&vs);
        let flat = |x: &[usize]| x.iter().zip(st.iter()).map(|(a, b)| a * b).sum::<usize>();
        let (pi, pj) = (offs[flat(&i)], offs[flat(&j)]);
        if let Some(recs) = self.slots.get_mut(&n).unwrap().shadow.as_mut() {
            recs.swap(pi, pj);
        }
        self.answer(&n)
    }

    /// `layout a`: `data_layout` of the container used as a tensor / matrix source
    fn layout_line(&mut self, toks: &[&str]) -> String {
        use easy_ml::matrices::views::DataLayout as MLayout;
        use easy_ml::tensors::views::DataLayout as TLayout;
        let (n, _spec, _vs, _offs) = match self.operand(toks[1]) {
            Ok(x) => x,
            Err(e) => return e,
        };
        macro_rules! tlayout {
            ($c:ident, $D:literal) => {{
                // the container as a `TensorRef` source, through the trait: shape and every
                // element (checked and unchecked), one index past the end of every dimension
                for m in ["get_reference", "view_shape", "get_reference_unchecked", "data_layout"] {
                    hit(&format!("impl~TensorRef<(T,Index),D>~for~RecordTensor<T,S,D>::{}", m));
                }
                hit("derive~Debug~for~RecordContainer");
                if !format!("{:?}", $c).contains("RecordContainer") {
                    complain("debug-of-RecordContainer".into());
                }
                let shape = <RT<T, $D> as TensorRef<(T, Index), $D>>::view_shape($c);
                if shape != $c.shape() {
                    complain("TensorRef::view_shape".into());
                }
                let lens: Vec<usize> = shape.iter().map(|d| d.1).collect();
                let expected: Vec<(T, Index)> = $c.view().iter().collect();
                for (k, i) in all_indexes(&lens).iter().enumerate() {
                    let i: [usize; $D] = to_array(i);
                    let a = <RT<T, $D> as TensorRef<(T, Index), $D>>::get_reference($c, i).cloned();
                    let b = unsafe { <RT<T, $D> as TensorRef<(T, Index), $D>>::get_reference_unchecked($c, i) }.clone();
                    let same = |x: &(T, Index)| x.0.eqv(&expected[k].0) && x.1 == expected[k].1;
                    if !a.as_ref().map(same).unwrap_or(false) || !same(&b) {
                        complain(format!("TensorRef::get_reference-at-{}", k));
                    }
                    for d in 0..$D {
                        let mut out = i;
                        out[d] = lens[d];
                        if <RT<T, $D> as TensorRef<(T, Index), $D>>::get_reference($c, out).is_some() {
                            complain("TensorRef::get_reference-out-of-range".into());
                        }
                    }
                }
                match <RT<T, $D> as TensorRef<(T, Index), $D>>::data_layout($c) {
                    TLayout::Linear(names) => format!("linear:{}", show_names(&names)),
                    TLayout::NonLinear => "non_linear".to_string(),
                    TLayout::Other => "other".to_string(),
                }
            }};
        }
        let l = match &self.slots[&n].c {
            AnyC::T0(c) => tlayout!(c, 0),
            AnyC::T1(c) => tlayout!(c, 1),
            AnyC::T2(c) => tlayout!(c, 2),
            AnyC::T3(c) => tlayout!(c, 3),
            AnyC::M(c) => {
                for m in ["try_get_reference", "view_rows", "view_columns", "get_reference_unchecked", "data_layout"] {
                    hit(&format!("impl~MatrixRef<(T,Index)>~for~RecordMatrix<T,S>::{}", m));
                }
                hit("derive~Debug~for~RecordContainer");
                if !format!("{:?}", c).contains("RecordContainer") {
                    complain("debug-of-RecordContainer".into());
                }
                let (rows, cols) = (<RM<T> as MatrixRef<(T, Index)>>::view_rows(c), <RM<T> as MatrixRef<(T, Index)>>::view_columns(c));
                if (rows, cols) != c.size() || rows != c.rows() || cols != c.columns() {
                    complain("MatrixRef::view_rows/view_columns".into());
                }
                let expected: Vec<(T, Index)> = c.view().row_major_iter().collect();
                for i in 0..rows {
                    for j in 0..cols {
                        let k = i * cols + j;
                        let a = <RM<T> as MatrixRef<(T, Index)>>::try_get_reference(c, i, j).cloned();
                        let b = unsafe { <RM<T> as MatrixRef<(T, Index)>>::get_reference_unchecked(c, i, j) }.clone();
                        let same = |x: &(T, Index)| x.0.eqv(&expected[k].0) && x.1 == expected[k].1;
                        if !a.as_ref().map(same).unwrap_or(false) || !same(&b) {
                            complain(format!("MatrixRef::try_get_reference-at-{}", k));
                        }
                    }
                }
                if <RM<T> as MatrixRef<(T, Index)>>::try_get_reference(c, rows, 0).is_some() || <RM<T> as MatrixRef<(T, Index)>>::try_get_reference(c, 0, cols).is_some() {
                    complain("MatrixRef::try_get_reference-out-of-range".into());
                }
                match <RM<T> as MatrixRef<(T, Index)>>::data_layout(c) {
                    MLayout::RowMajor => "row_major".to_string(),
                    MLayout::ColumnMajor => "column_major".to_string(),
                    MLayout::Other => "other".to_string(),
                }
            }
        };
        format!("ok ## layout={}", l)
    }

    /// Reduced vocabulary for the `f64` cases (owned operands, all-references forms): keeps the
    /// number of instantiations of the generic library code at a third element type small.
    pub fn step_lite(&mut self, toks: &[&str]) -> String {
        match toks[0] {
            "vars" | "consts" if toks.len() >= 5 => self.create(toks),
            "clear" => self.clear_line(toks),
            "reset" if toks.len() >= 2 => self.reset_line(toks),
            "derivs" if toks.len() >= 2 => self.derivs_line(toks),
            "add" | "sub" | "emul" | "ediv" | "binary" | "matmul" if toks.len() >= 4 => self.binary_lite_line(toks),
            "addn" | "subn" | "muln" | "divn" | "subsw" | "divsw" | "pown" | "npow" if toks.len() >= 4 => self.unary_lite_line(toks),
            "neg" | "sin" | "cos" | "exp" | "ln" | "sqrt" | "unary" if toks.len() >= 3 => self.unary_lite_line(toks),
            _ => "bad-op".into(),
        }
    }

    fn unary_lite_line(&mut self, toks: &[&str]) -> String {
        let op = toks[0];
        let (res, atok, k): (&str, &str, Option<T>) = match op {
            "npow" => (toks[1], toks[3], Some(T::parse(toks[2]))),
            "addn" | "subn" | "muln" | "divn" | "subsw" | "divsw" | "pown" => (toks[1], toks[2], Some(T::parse(toks[3]))),
            _ => (toks[1], toks[2], None),
        };
        let (an, spec, _vs, offs) = match self.operand(atok) {
            Ok(x) => x,
            Err(e) => return e,
        };
        if !matches!(spec, ViewSpec::Own) {
            return "bad-view".into();
        }
        let fns: Option<(F1<T>, F1<T>)> = if op == "unary" { Some(unary_fn::<T>(opt_arg("fn", toks).unwrap())) } else { None };
        let (kr, fr) = (k.as_ref(), fns.as_ref());
        let out: Result<AnyC<T>, PanicKind> = match &self.slots[&an].c {
            AnyC::T1(c) => catch(|| AnyC::T1(t_un_lite::<T, _, 1>(c.clone(), op, kr, fr))),
            AnyC::T2(c) => catch(|| AnyC::T2(t_un_lite::<T, _, 2>(c.clone(), op, kr, fr))),
            AnyC::M(c) => catch(|| AnyC::M(m_un_lite::<T, _>(c.clone(), op, kr, fr))),
            _ => return "bad-kind".into(),
        };
        let out = match out {
            Ok(c) => c,
            Err(kind) => return panic_str(kind),
        };
        let shadow = self
            .shadow_view(&an, &offs)
            .and_then(|recs| catch(|| recs.iter().map(|x| scalar_unary::<T>(x, op, kr, fr)).collect::<Vec<Rc<T>>>()).ok());
        self.put(res, out, shadow);
        self.answer(res)
    }

    fn binary_lite_line(&mut self, toks: &[&str]) -> String {
        let op = toks[0];
        let res = toks[1];
        let (a, b) = match (self.operand(toks[2]), self.operand(toks[3])) {
            (Ok(a), Ok(b)) => (a, b),
            (Err(e), _) | (_, Err(e)) => return e,
        };
        if !matches!(a.1, ViewSpec::Own) || !matches!(b.1, ViewSpec::Own) {
            return "bad-view".into();
        }
        let fns: Option<(F2<T>, F2<T>, F2<T>)> = if op == "binary" { Some(bfn_triple::<T>(opt_arg("fn", toks).unwrap())) } else { None };
        let fr = fns.as_ref();
        let out: Result<AnyC<T>, PanicKind> = match (&self.slots[&a.0].c, &self.slots[&b.0].c) {
            (AnyC::T2(x), AnyC::T2(y)) if op == "matmul" => catch(|| AnyC::T2(t_matmul_lite::<T, _, _>(x.clone(), y.clone()))),
            (AnyC::M(x), AnyC::M(y)) if op == "matmul" => catch(|| AnyC::M(m_matmul_lite::<T, _, _>(x.clone(), y.clone()))),
            (AnyC::T1(x), AnyC::T1(y)) => catch(|| AnyC::T1(t_bin_lite::<T, _, _, 1>(x.clone(), y.clone(), op, fr))),
            (AnyC::T2(x), AnyC::T2(y)) => catch(|| AnyC::T2(t_bin_lite::<T, _, _, 2>(x.clone(), y.clone(), op, fr))),
            (AnyC::M(x), AnyC::M(y)) => catch(|| AnyC::M(m_bin_lite::<T, _, _>(x.clone(), y.clone(), op, fr))),
            _ => return "bad-kind".into(),
        };
        let out = match out {
            Ok(c) => c,
            Err(kind) => return panic_str(kind),
        };
        let shadow: Option<Result<Vec<Rc<T>>, PanicKind>> = match (self.shadow_view(&a.0, &a.3), self.shadow_view(&b.0, &b.3)) {
            (Some(ra), Some(rb)) => Some(if op == "matmul" {
                let (m, n, l) = (a.2[0].1, a.2[1].1, b.2[1].1);
                catch(|| scalar_matmul::<T>(&ra, &rb, m, n, l))
            } else {
                catch(|| ra.iter().zip(rb.iter()).map(|(x, y)| scalar_binary::<T>(x, y, op, fr)).collect::<Vec<Rc<T>>>())
            }),
            _ => None,
        };
        match shadow {
            Some(Ok(v)) => {
                self.put(res, out, Some(v));
                self.answer(res)
            }
            Some(Err(kind)) => {
                self.put(res, out, None);
                self.answer(res).replace("scalar=skip", &format!("scalar=DIFF({})", panic_str(kind)))
            }
            None => {
                self.put(res, out, None);
                self.answer(res)
            }
        }
    }

    pub fn step(&mut self, toks: &[&str]) -> String {
        match toks[0] {
            "vars" | "consts" if toks.len() >= 5 => self.create(toks),
            "clear" => self.clear_line(toks),
            "reset" if toks.len() >= 2 => self.reset_line(toks),
            "derivs" if toks.len() >= 2 => self.derivs_line(toks),
            "uassign" if toks.len() >= 2 => self.uassign_line(toks),
            "lassign" | "rassign" if toks.len() >= 3 => self.bassign_line(toks),
            "map" if toks.len() >= 3 => self.map_line(toks),
            "mapmut" if toks.len() >= 2 => self.mapmut_line(toks),
            "fromiter" if toks.len() >= 3 => self.fromiter_line(toks),
            "fromiters" if toks.len() >= 3 => self.fromiters_line(toks),
            "elem" if toks.len() >= 4 => self.elem_line(toks),
            "scalar" if toks.len() >= 3 => self.scalar_line(toks),
            "swap" if toks.len() >= 4 => self.swap_line(toks),
            "layout" if toks.len() >= 2 => self.layout_line(toks),
            "add" | "sub" | "emul" | "ediv" | "binary" | "matmul" if toks.len() >= 4 => self.binary_line(toks),
            "addn" | "subn" | "muln" | "divn" | "subsw" | "divsw" | "pown" | "npow" if toks.len() >= 4 => self.unary_line(toks),
            "neg" | "sin" | "cos" | "exp" | "ln" | "sqrt" | "unary" if toks.len() >= 3 => self.unary_line(toks),
            _ => "bad-op".into(),
        }
    }
}

/// the `Display` of the iterator errors says which of the three cases it is
fn iter_error_display_ok<T: Elt, const D: usize>(e: &easy_ml::differentiation::iterators::InvalidRecordIteratorError<'static, T, D>) -> bool {
    use easy_ml::differentiation::iterators::InvalidRecordIteratorError as E;
    hit("impl~fmt::Display~for~InvalidRecordIteratorError<T,D>::fmt");
    hit("derive~Clone~for~InvalidRecordIteratorError");
    hit("derive~Debug~for~InvalidRecordIteratorError");
    let copy = e.clone();
    let as_error: &dyn std::error::Error = &copy;
    if as_error.to_string() != format!("{}", e) {
        complain("clone-or-error-trait-object-of-InvalidRecordIteratorError".into());
    }
    let dbg = format!("{:?}", copy);
    let dbg_ok = match e {
        E::Shape { .. } => dbg.starts_with("Shape"),
        E::Empty => dbg.starts_with("Empty"),
        E::InconsistentHistory(h) => {
            hit("impl~fmt::Display~for~InconsistentHistory<T>::fmt");
            hit("derive~Clone~for~InconsistentHistory");
            hit("derive~Debug~for~InconsistentHistory");
            let h2 = h.clone();
            format!("{}", h2).starts_with("First history was") && format!("{:?}", h2).contains("InconsistentHistory") && dbg.starts_with("InconsistentHistory")
        }
    };
    if !dbg_ok {
        complain("debug-or-display-of-the-iterator-error".into());
    }
    let text = format!("{}", e);
    match e {
        E::Shape { .. } => text.starts_with("Shape "),
        E::Empty => text.starts_with("Iterator was empty"),
        E::InconsistentHistory(_) => text.starts_with("First history in iterator"),
    }
}

/// a container is displayed by its numbers: they appear in the text in row-major order
fn display_shows<T: Elt>(text: &str, vals: &[T]) -> bool {
    let mut rest = text;
    for v in vals {
        let needle = v.to_string();
        match rest.find(&needle) {
            Some(k) => rest = &rest[k + needle.len()..],
            None => return false,
        }
    }
    true
}

/// one element as a record through one of the three `TensorAccess` flavours over a record tensor
fn elem_t<T, const D: usize>(c: &mut RT<T, D>, spec: &ViewSpec, idx: &[usize], access: &str, form: &str) -> Result<Option<Rc<T>>, PanicKind>
where
    T: Elt,
    for<'x> &'x T: NumericRef<T>,
{
    let shape = c.shape();
    let dims: [Dimension; D] = match spec {
        ViewSpec::Acc(p) => std::array::from_fn(|k| shape[p[k]].0),
        _ => std::array::from_fn(|k| shape[k].0),
    };
    let i: [usize; D] = to_array(idx);
    macro_rules! get {
        ($a:expr, $recv:expr) => {{
            let a = $a;
            hit(&format!("TensorAccess<(T,Index),{}RecordTensor<T,S,D>,D>::{}", $recv, if form == "try" { "try_get_as_record" } else { "get_as_record" }));
            catch(|| if form == "try" { a.try_get_as_record(i) } else { Some(a.get_as_record(i)) })
        }};
    }
    match access {
        "owned" => {
            hit(CLONE_);
            get!(TensorAccess::from(c.clone(), dims), "")
        }
        "mut" => get!(TensorAccess::from(&mut *c, dims), "&mut~"),
        _ => {
            if matches!(spec, ViewSpec::Own) {
                hit("RecordTensor<T,S,D>::index");
                get!(c.index(), "&")
            } else {
                hit("RecordTensor<T,S,D>::index_by");
                get!(c.index_by(dims), "&")
            }
        }
    }
}

// ---------------------------------------------------------------------------------------------
// the same operations on scalar records
// ---------------------------------------------------------------------------------------------

fn scalar_unary<T>(x: &Rc<T>, op: &str, k: Option<&T>, fns: Fns2<T>) -> Rc<T>
where
    T: Elt,
    for<'x> &'x T: NumericRef<T>,
{
    match op {
        "addn" => x + k.unwrap(),
        "subn" => x - k.unwrap(),
        "muln" => x * k.unwrap(),
        "divn" => x / k.unwrap(),
        "subsw" => x.sub_swapped(k.unwrap()),
        "divsw" => x.div_swapped(k.unwrap()),
        "neg" => -x,
        "unary" => {
            let (f, df) = fns.unwrap();
            x.unary(|v| f(v), |v| df(v))
        }
        _ => T::rec_real(x, op, k),
    }
}

fn scalar_binary<T>(x: &Rc<T>, y: &Rc<T>, op: &str, fns: Fns3<T>) -> Rc<T>
where
    T: Elt,
    for<'x> &'x T: NumericRef<T>,
{
    match op {
        "add" => x + y,
        "sub" => x - y,
        "emul" => x * y,
        "ediv" => x / y,
        "binary" => {
            let (f, dfx, dfy) = fns.unwrap();
            x.binary(y, |a, b| f(a, b), |a, b| dfx(a, b), |a, b| dfy(a, b))
        }
        other => panic!("harness: unknown binary op {}", other),
    }
}

/// `m × n` times `n × l` with scalar records: every cell is `zip.map(x * y).reduce(x + y)`
/// (what `scalar_product` of tensors/operations.rs does for `T = Record`), cells in row-major order
fn scalar_matmul<T>(a: &[Rc<T>], b: &[Rc<T>], m: usize, n: usize, l: usize) -> Vec<Rc<T>>
where
    T: Elt,
    for<'x> &'x T: NumericRef<T>,
{
    let mut out = vec![];
    for i in 0..m {
        for j in 0..l {
            let cell = (0..n).map(|k| &a[i * n + k] * &b[k * l + j]).reduce(|x, y| x + y).expect("non-empty");
            out.push(cell);
        }
    }
    out
}

// ---------------------------------------------------------------------------------------------
// runner
// ---------------------------------------------------------------------------------------------

enum Case {
    None,
    Fp(CaseG<Fp>),
    Rat(CaseG<Rat>),
    F64(CaseG<f64>),
}

/// `f64` cases: the numbers are compared inside the harness only (`scalar=`), not printed
fn without_numbers(answer: String) -> String {
    answer
        .split(' ')
        .filter(|t| !t.starts_with("v="))
        .map(|t| if t.starts_with("d=") { "d=*" } else { t })
        .collect::<Vec<_>>()
        .join(" ")
}

pub struct Runner {
    case: Case,
}

impl Runner {
    pub fn new() -> Runner {
        Runner { case: Case::None }
    }

    pub fn step(&mut self, toks: &[&str]) -> String {
        if toks.is_empty() {
            return "bad-op".into();
        }
        if toks[0] == "api-report" {
            // the routes (call sites standing for API items) never reached during this run
            let missing: Vec<&str> = toks[1..].iter().filter(|r| !api::was_hit(r)).cloned().collect();
            return format!("api-report n={} ## missing={}", toks.len() - 1, missing.join(";"));
        }
        if toks[0] == "@" {
            self.case = Case::None;
            let n: usize = toks.get(2).and_then(|s| s.parse().ok()).unwrap_or(1);
            self.case = match toks.get(3) {
                Some(&"rat") => Case::Rat(CaseG::<Rat>::new(n)),
                Some(&"f64") => Case::F64(CaseG::<f64>::new(n)),
                _ => Case::Fp(CaseG::<Fp>::new(n)),
            };
            return "ok".into();
        }
        let answer = match &mut self.case {
            Case::None => "bad-op".into(),
            Case::Fp(c) => c.step(toks),
            Case::Rat(c) => c.step(toks),
            Case::F64(c) => without_numbers(c.step_lite(toks)),
        };
        // a comparison made inside the runner (trait access, iterator lengths, Debug / Clone of
        // errors) failed
        match api::take_complaint() {
            Some(what) => format!("api-check-failed {}", what),
            None => answer,
        }
    }
}
