//! C06 — record containers (`RecordTensor`, `RecordMatrix`) against the container model, and
//! against the same computation done with scalar `Record`s in this harness (`scalar=ok`).
//! Also the container part of C15: cross-tape pairings of every container binary operation,
//! container `reset` / tape `clear` cycles.
//!
//! Line protocol: lean/Driver/C06.lean.  Generator: c06/gen.rs.
//!
//! Every named container is stored owned (`Tensor` / `Matrix` source).  An operand `name/<view>`
//! is turned, for the one operation, into a container over another source kind: `&RecordTensor`
//! (`ref`), `TensorAccess` (`acc`), `TensorTranspose` (`tr`), `TensorRange` / `MatrixRange` (`rg`),
//! `TensorReverse` / `MatrixReverse` (`rev`); assigning operations get the `&mut` versions and
//! write through.  The scalar mirror keeps, per container, one `Record` per element on *shadow*
//! tapes (one per tape of the case, cleared together with it) and repeats every operation element
//! by element in row-major order of the view.

use crate::c04::{binary_fn, show_list, two, unary_fn, El, Rc, TapeBox, F1, F2};
use crate::exact::{Fp, Rat};
use crate::util::*;
use easy_ml::differentiation::record_operations::SwappedOperations;
use easy_ml::differentiation::{Derivatives, Index, Primitive, Record, RecordMatrix, RecordTensor, WengertList};
use easy_ml::matrices::views::{MatrixMut, MatrixRange, MatrixRef, MatrixReverse, MatrixView, NoInteriorMutability, Reverse};
use easy_ml::matrices::Matrix;
use easy_ml::numeric::extra::{Cos, Exp, Ln, Pow, Sin, Sqrt};
use easy_ml::numeric::{FromUsize, Numeric, NumericRef, ZeroOne};
use easy_ml::tensors::indexing::{TensorAccess, TensorTranspose};
use easy_ml::tensors::views::{TensorMut, TensorRange, TensorRef, TensorReverse, TensorView};
use easy_ml::tensors::{Dimension, Tensor};
use std::collections::HashMap;

#[path = "c06_gen.rs"]
mod gen_impl;
pub use gen_impl::gen;

pub type RT<T, const D: usize> = RecordTensor<'static, T, Tensor<(T, Index), D>, D>;
pub type RM<T> = RecordMatrix<'static, T, Matrix<(T, Index)>>;
pub type Sh = Vec<(&'static str, usize)>;

// ---------------------------------------------------------------------------------------------
// views
// ---------------------------------------------------------------------------------------------

#[derive(Clone, Debug, PartialEq)]
pub enum ViewSpec {
    Own,
    Ref,
    Acc(Vec<usize>),
    Tr(Vec<usize>),
    Rg(Vec<(usize, usize)>),
    Rev(Vec<bool>),
}

impl ViewSpec {
    /// the owned container itself or a plain borrow of it
    pub fn is_basic(&self) -> bool {
        matches!(self, ViewSpec::Own | ViewSpec::Ref)
    }
}

pub fn parse_view(s: &str) -> Option<ViewSpec> {
    let parts: Vec<&str> = s.split('.').collect();
    let nums = |p: &[&str]| p.iter().map(|x| x.parse::<usize>().ok()).collect::<Option<Vec<usize>>>();
    match parts[0] {
        "ref" if parts.len() == 1 => Some(ViewSpec::Ref),
        "acc" => nums(&parts[1..]).map(ViewSpec::Acc),
        "tr" => nums(&parts[1..]).map(ViewSpec::Tr),
        "rg" => parts[1..]
            .iter()
            .map(|r| {
                let (a, b) = r.split_once('+')?;
                Some((a.parse().ok()?, b.parse().ok()?))
            })
            .collect::<Option<Vec<(usize, usize)>>>()
            .map(ViewSpec::Rg),
        "rev" => parts[1..]
            .iter()
            .map(|f| match *f {
                "1" => Some(true),
                "0" => Some(false),
                _ => None,
            })
            .collect::<Option<Vec<bool>>>()
            .map(ViewSpec::Rev),
        _ => None,
    }
}

pub fn parse_operand(tok: &str) -> Option<(&str, ViewSpec)> {
    match tok.split_once('/') {
        None => Some((tok, ViewSpec::Own)),
        Some((n, v)) => parse_view(v).map(|v| (n, v)),
    }
}

pub fn show_view(v: &ViewSpec) -> String {
    let join = |xs: Vec<String>| xs.join(".");
    match v {
        ViewSpec::Own => String::new(),
        ViewSpec::Ref => "/ref".into(),
        ViewSpec::Acc(p) => format!("/acc.{}", join(p.iter().map(|x| x.to_string()).collect())),
        ViewSpec::Tr(p) => format!("/tr.{}", join(p.iter().map(|x| x.to_string()).collect())),
        ViewSpec::Rg(r) => format!("/rg.{}", join(r.iter().map(|(a, b)| format!("{}+{}", a, b)).collect())),
        ViewSpec::Rev(f) => format!("/rev.{}", join(f.iter().map(|b| if *b { "1".to_string() } else { "0".to_string() }).collect())),
    }
}

fn strides(shape: &[(&'static str, usize)]) -> Vec<usize> {
    (0..shape.len()).map(|d| shape[d + 1..].iter().map(|x| x.1).product()).collect()
}

fn all_indexes(lens: &[usize]) -> Vec<Vec<usize>> {
    let mut out = vec![vec![]];
    for &l in lens {
        let mut next = vec![];
        for prefix in &out {
            for i in 0..l {
                let mut p = prefix.clone();
                p.push(i);
                next.push(p);
            }
        }
        out = next;
    }
    out
}

fn is_perm(p: &[usize], d: usize) -> bool {
    p.len() == d && (0..d).all(|k| p.contains(&k))
}

/// The shape a view shows and, per view element in row-major order, the offset of the element in
/// the owned (row-major) container.  `None`: not a view of this shape.
pub fn view_of(shape: &[(&'static str, usize)], spec: &ViewSpec, is_matrix: bool) -> Option<(Sh, Vec<usize>)> {
    let st = strides(shape);
    let d = shape.len();
    let dot = |a: &[usize], b: &[usize]| a.iter().zip(b).map(|(x, y)| x * y).sum::<usize>();
    match spec {
        ViewSpec::Own | ViewSpec::Ref => Some((shape.to_vec(), (0..shape.iter().map(|x| x.1).product()).collect())),
        ViewSpec::Acc(p) | ViewSpec::Tr(p) => {
            if is_matrix || !is_perm(p, d) {
                return None;
            }
            let lens: Vec<usize> = p.iter().map(|&k| shape[k].1).collect();
            let pst: Vec<usize> = p.iter().map(|&k| st[k]).collect();
            let vshape: Sh = match spec {
                ViewSpec::Acc(_) => p.iter().map(|&k| shape[k]).collect(),
                _ => (0..d).map(|k| (shape[k].0, lens[k])).collect(),
            };
            Some((vshape, all_indexes(&lens).iter().map(|i| dot(i, &pst)).collect()))
        }
        ViewSpec::Rg(r) => {
            if r.len() != d || !(0..d).all(|k| r[k].1 >= 1 && r[k].0 + r[k].1 <= shape[k].1) {
                return None;
            }
            let lens: Vec<usize> = r.iter().map(|x| x.1).collect();
            let base = dot(&r.iter().map(|x| x.0).collect::<Vec<_>>(), &st);
            let vshape: Sh = (0..d).map(|k| (shape[k].0, lens[k])).collect();
            Some((vshape, all_indexes(&lens).iter().map(|i| base + dot(i, &st)).collect()))
        }
        ViewSpec::Rev(f) => {
            if f.len() != d {
                return None;
            }
            let lens: Vec<usize> = shape.iter().map(|x| x.1).collect();
            Some((
                shape.to_vec(),
                all_indexes(&lens)
                    .iter()
                    .map(|i| dot(&(0..d).map(|k| if f[k] { lens[k] - 1 - i[k] } else { i[k] }).collect::<Vec<_>>(), &st))
                    .collect(),
            ))
        }
    }
}

/// `$v` is bound to a container over the requested source kind, built from `&RT<T, D>`.
macro_rules! tview {
    ($D:literal, $base:expr, $spec:expr, $v:ident => $body:expr) => {{
        let base = $base;
        let h = base.history();
        let shape = base.shape();
        match $spec {
            ViewSpec::Own => {
                let $v = base.clone();
                $body
            }
            ViewSpec::Ref => {
                let $v = RecordTensor::from_existing(h, TensorView::from(base));
                $body
            }
            ViewSpec::Acc(p) => {
                let dims: [Dimension; $D] = std::array::from_fn(|k| shape[p[k]].0);
                let $v = RecordTensor::from_existing(h, TensorView::from(TensorAccess::from(base, dims)));
                $body
            }
            ViewSpec::Tr(p) => {
                let dims: [Dimension; $D] = std::array::from_fn(|k| shape[p[k]].0);
                let $v = RecordTensor::from_existing(h, TensorView::from(TensorTranspose::from(base, dims)));
                $body
            }
            ViewSpec::Rg(r) => {
                let ranges: [Option<std::ops::Range<usize>>; $D] = std::array::from_fn(|k| Some(r[k].0..r[k].0 + r[k].1));
                let $v = RecordTensor::from_existing(h, TensorView::from(TensorRange::from_all(base, ranges).expect("range")));
                $body
            }
            ViewSpec::Rev(f) => {
                let names: Vec<Dimension> = (0..$D).filter(|&k| f[k]).map(|k| shape[k].0).collect();
                let $v = RecordTensor::from_existing(h, TensorView::from(TensorReverse::from(base, &names)));
                $body
            }
        }
    }};
}

/// The same over `&mut RT<T, D>`; `$body` evaluates to `Result<container, PanicKind>`.  With the
/// owned spec the operation runs on a copy which replaces the stored container on success;
/// with a view the writes have gone through.
macro_rules! tview_mut {
    ($D:literal, $base:expr, $spec:expr, $v:ident => $body:expr) => {{
        let base = $base;
        let h = base.history();
        let shape = base.shape();
        match $spec {
            ViewSpec::Own => {
                let $v = base.clone();
                let r = $body;
                r.map(|n| {
                    *base = n;
                })
            }
            ViewSpec::Ref => {
                let $v = RecordTensor::from_existing(h, TensorView::from(&mut *base));
                let r = $body;
                r.map(|_| ())
            }
            ViewSpec::Acc(p) => {
                let dims: [Dimension; $D] = std::array::from_fn(|k| shape[p[k]].0);
                let $v = RecordTensor::from_existing(h, TensorView::from(TensorAccess::from(&mut *base, dims)));
                let r = $body;
                r.map(|_| ())
            }
            ViewSpec::Tr(p) => {
                let dims: [Dimension; $D] = std::array::from_fn(|k| shape[p[k]].0);
                let $v = RecordTensor::from_existing(h, TensorView::from(TensorTranspose::from(&mut *base, dims)));
                let r = $body;
                r.map(|_| ())
            }
            ViewSpec::Rg(r_) => {
                let ranges: [Option<std::ops::Range<usize>>; $D] = std::array::from_fn(|k| Some(r_[k].0..r_[k].0 + r_[k].1));
                let $v = RecordTensor::from_existing(h, TensorView::from(TensorRange::from_all(&mut *base, ranges).expect("range")));
                let r = $body;
                r.map(|_| ())
            }
            ViewSpec::Rev(f) => {
                let names: Vec<Dimension> = (0..$D).filter(|&k| f[k]).map(|k| shape[k].0).collect();
                let $v = RecordTensor::from_existing(h, TensorView::from(TensorReverse::from(&mut *base, &names)));
                let r = $body;
                r.map(|_| ())
            }
        }
    }};
}

macro_rules! mview {
    ($base:expr, $spec:expr, $v:ident => $body:expr) => {{
        let base = $base;
        let h = base.history();
        match $spec {
            ViewSpec::Own => {
                let $v = base.clone();
                $body
            }
            ViewSpec::Ref => {
                let $v = RecordMatrix::from_existing(h, MatrixView::from(base));
                $body
            }
            ViewSpec::Rg(r) => {
                let $v = RecordMatrix::from_existing(
                    h,
                    MatrixView::from(MatrixRange::from(base, r[0].0..r[0].0 + r[0].1, r[1].0..r[1].0 + r[1].1)),
                );
                $body
            }
            ViewSpec::Rev(f) => {
                let $v = RecordMatrix::from_existing(
                    h,
                    MatrixView::from(MatrixReverse::from(base, Reverse { rows: f[0], columns: f[1] })),
                );
                $body
            }
            _ => panic!("harness: view kind not available for matrices"),
        }
    }};
}

macro_rules! mview_mut {
    ($base:expr, $spec:expr, $v:ident => $body:expr) => {{
        let base = $base;
        let h = base.history();
        match $spec {
            ViewSpec::Own => {
                let $v = base.clone();
                let r = $body;
                r.map(|n| {
                    *base = n;
                })
            }
            ViewSpec::Ref => {
                let $v = RecordMatrix::from_existing(h, MatrixView::from(&mut *base));
                let r = $body;
                r.map(|_| ())
            }
            ViewSpec::Rg(r_) => {
                let $v = RecordMatrix::from_existing(
                    h,
                    MatrixView::from(MatrixRange::from(&mut *base, r_[0].0..r_[0].0 + r_[0].1, r_[1].0..r_[1].0 + r_[1].1)),
                );
                let r = $body;
                r.map(|_| ())
            }
            ViewSpec::Rev(f) => {
                let $v = RecordMatrix::from_existing(
                    h,
                    MatrixView::from(MatrixReverse::from(&mut *base, Reverse { rows: f[0], columns: f[1] })),
                );
                let r = $body;
                r.map(|_| ())
            }
            _ => panic!("harness: view kind not available for matrices"),
        }
    }};
}

macro_rules! tview_basic {
    ($D:literal, $base:expr, $spec:expr, $v:ident => $body:expr) => {{
        let base = $base;
        let h = base.history();
        let shape = base.shape();
        match $spec {
            ViewSpec::Own => {
                let $v = base.clone();
                $body
            }
            ViewSpec::Ref => {
                let $v = RecordTensor::from_existing(h, TensorView::from(base));
                $body
            }
            _ => unreachable!("harness: view kind not dispatched here"),
        }
    }};
}

macro_rules! tview_fancy {
    ($D:literal, $base:expr, $spec:expr, $v:ident => $body:expr) => {{
        let base = $base;
        let h = base.history();
        let shape = base.shape();
        match $spec {
            ViewSpec::Acc(p) => {
                let dims: [Dimension; $D] = std::array::from_fn(|k| shape[p[k]].0);
                let $v = RecordTensor::from_existing(h, TensorView::from(TensorAccess::from(base, dims)));
                $body
            }
            ViewSpec::Tr(p) => {
                let dims: [Dimension; $D] = std::array::from_fn(|k| shape[p[k]].0);
                let $v = RecordTensor::from_existing(h, TensorView::from(TensorTranspose::from(base, dims)));
                $body
            }
            ViewSpec::Rg(r) => {
                let ranges: [Option<std::ops::Range<usize>>; $D] = std::array::from_fn(|k| Some(r[k].0..r[k].0 + r[k].1));
                let $v = RecordTensor::from_existing(h, TensorView::from(TensorRange::from_all(base, ranges).expect("range")));
                $body
            }
            ViewSpec::Rev(f) => {
                let names: Vec<Dimension> = (0..$D).filter(|&k| f[k]).map(|k| shape[k].0).collect();
                let $v = RecordTensor::from_existing(h, TensorView::from(TensorReverse::from(base, &names)));
                $body
            }
            _ => unreachable!("harness: view kind not dispatched here"),
        }
    }};
}

macro_rules! tview_basic_mut {
    ($D:literal, $base:expr, $spec:expr, $v:ident => $body:expr) => {{
        let base = $base;
        let h = base.history();
        let shape = base.shape();
        match $spec {
            ViewSpec::Own => {
                let $v = base.clone();
                let r = $body;
                r.map(|n| {
                    *base = n;
                })
            }
            ViewSpec::Ref => {
                let $v = RecordTensor::from_existing(h, TensorView::from(&mut *base));
                let r = $body;
                r.map(|_| ())
            }
            _ => unreachable!("harness: view kind not dispatched here"),
        }
    }};
}

macro_rules! tview_fancy_mut {
    ($D:literal, $base:expr, $spec:expr, $v:ident => $body:expr) => {{
        let base = $base;
        let h = base.history();
        let shape = base.shape();
        match $spec {
            ViewSpec::Acc(p) => {
                let dims: [Dimension; $D] = std::array::from_fn(|k| shape[p[k]].0);
                let $v = RecordTensor::from_existing(h, TensorView::from(TensorAccess::from(&mut *base, dims)));
                let r = $body;
                r.map(|_| ())
            }
            ViewSpec::Tr(p) => {
                let dims: [Dimension; $D] = std::array::from_fn(|k| shape[p[k]].0);
                let $v = RecordTensor::from_existing(h, TensorView::from(TensorTranspose::from(&mut *base, dims)));
                let r = $body;
                r.map(|_| ())
            }
            ViewSpec::Rg(r_) => {
                let ranges: [Option<std::ops::Range<usize>>; $D] = std::array::from_fn(|k| Some(r_[k].0..r_[k].0 + r_[k].1));
                let $v = RecordTensor::from_existing(h, TensorView::from(TensorRange::from_all(&mut *base, ranges).expect("range")));
                let r = $body;
                r.map(|_| ())
            }
            ViewSpec::Rev(f) => {
                let names: Vec<Dimension> = (0..$D).filter(|&k| f[k]).map(|k| shape[k].0).collect();
                let $v = RecordTensor::from_existing(h, TensorView::from(TensorReverse::from(&mut *base, &names)));
                let r = $body;
                r.map(|_| ())
            }
            _ => unreachable!("harness: view kind not dispatched here"),
        }
    }};
}

macro_rules! mview_basic {
    ($base:expr, $spec:expr, $v:ident => $body:expr) => {{
        let base = $base;
        let h = base.history();
        match $spec {
            ViewSpec::Own => {
                let $v = base.clone();
                $body
            }
            ViewSpec::Ref => {
                let $v = RecordMatrix::from_existing(h, MatrixView::from(base));
                $body
            }
            _ => unreachable!("harness: view kind not dispatched here"),
        }
    }};
}

macro_rules! mview_fancy {
    ($base:expr, $spec:expr, $v:ident => $body:expr) => {{
        let base = $base;
        let h = base.history();
        match $spec {
            ViewSpec::Rg(r) => {
                let $v = RecordMatrix::from_existing(
                    h,
                    MatrixView::from(MatrixRange::from(base, r[0].0..r[0].0 + r[0].1, r[1].0..r[1].0 + r[1].1)),
                );
                $body
            }
            ViewSpec::Rev(f) => {
                let $v = RecordMatrix::from_existing(
                    h,
                    MatrixView::from(MatrixReverse::from(base, Reverse { rows: f[0], columns: f[1] })),
                );
                $body
            }
            _ => unreachable!("harness: view kind not dispatched here"),
        }
    }};
}

macro_rules! mview_basic_mut {
    ($base:expr, $spec:expr, $v:ident => $body:expr) => {{
        let base = $base;
        let h = base.history();
        match $spec {
            ViewSpec::Own => {
                let $v = base.clone();
                let r = $body;
                r.map(|n| {
                    *base = n;
                })
            }
            ViewSpec::Ref => {
                let $v = RecordMatrix::from_existing(h, MatrixView::from(&mut *base));
                let r = $body;
                r.map(|_| ())
            }
            _ => unreachable!("harness: view kind not dispatched here"),
        }
    }};
}

macro_rules! mview_fancy_mut {
    ($base:expr, $spec:expr, $v:ident => $body:expr) => {{
        let base = $base;
        let h = base.history();
        match $spec {
            ViewSpec::Rg(r_) => {
                let $v = RecordMatrix::from_existing(
                    h,
                    MatrixView::from(MatrixRange::from(&mut *base, r_[0].0..r_[0].0 + r_[0].1, r_[1].0..r_[1].0 + r_[1].1)),
                );
                let r = $body;
                r.map(|_| ())
            }
            ViewSpec::Rev(f) => {
                let $v = RecordMatrix::from_existing(
                    h,
                    MatrixView::from(MatrixReverse::from(&mut *base, Reverse { rows: f[0], columns: f[1] })),
                );
                let r = $body;
                r.map(|_| ())
            }
            _ => unreachable!("harness: view kind not dispatched here"),
        }
    }};
}


// ---------------------------------------------------------------------------------------------
// element types: what only a `Real` type can do
// ---------------------------------------------------------------------------------------------

/// `full`: every ownership form of the operator impls (used with the owned and borrowed source
/// kinds); `lite`: the all-references form only (used with the other source kinds, to keep the
/// number of instantiations of the generic library code bearable).
pub trait Elt: Numeric + Primitive + El + PartialOrd + FromUsize + 'static {
    fn t_real_full<S: TensorRef<(Self, Index), D>, const D: usize>(
        v: RecordTensor<'static, Self, S, D>,
        op: &str,
        via: &str,
        k: Option<&Self>,
    ) -> RT<Self, D>;
    fn t_real_lite<S: TensorRef<(Self, Index), D>, const D: usize>(
        v: RecordTensor<'static, Self, S, D>,
        op: &str,
        k: Option<&Self>,
    ) -> RT<Self, D>;
    fn m_real_full<S: MatrixRef<(Self, Index)> + NoInteriorMutability>(
        v: RecordMatrix<'static, Self, S>,
        op: &str,
        via: &str,
        k: Option<&Self>,
    ) -> RM<Self>;
    fn m_real_lite<S: MatrixRef<(Self, Index)> + NoInteriorMutability>(
        v: RecordMatrix<'static, Self, S>,
        op: &str,
        k: Option<&Self>,
    ) -> RM<Self>;
    fn rec_real(x: &Rc<Self>, op: &str, k: Option<&Self>) -> Rc<Self>;
}

macro_rules! real_body_full {
    ($v:expr, $op:expr, $via:expr, $k:expr) => {{
        let v = $v;
        match $op {
            "sin" => if $via == "ref" { (&v).sin() } else { v.sin() },
            "cos" => if $via == "ref" { (&v).cos() } else { v.cos() },
            "exp" => if $via == "ref" { (&v).exp() } else { v.exp() },
            "ln" => if $via == "ref" { (&v).ln() } else { v.ln() },
            "sqrt" => if $via == "ref" { (&v).sqrt() } else { v.sqrt() },
            "pown" => {
                let k = $k.expect("number");
                match $via {
                    "val_val" => v.pow(k.clone()),
                    "val_ref" => v.pow(k),
                    "ref_val" => (&v).pow(k.clone()),
                    _ => (&v).pow(k),
                }
            }
            "npow" => {
                let k = $k.expect("number");
                match $via {
                    "val_val" => k.clone().pow(v),
                    "val_ref" => k.clone().pow(&v),
                    "ref_val" => k.pow(v),
                    _ => k.pow(&v),
                }
            }
            other => panic!("harness: unknown real op {}", other),
        }
    }};
}

macro_rules! real_body_lite {
    ($v:expr, $op:expr, $k:expr) => {{
        let v = $v;
        match $op {
            "sin" => (&v).sin(),
            "cos" => (&v).cos(),
            "exp" => (&v).exp(),
            "ln" => (&v).ln(),
            "sqrt" => (&v).sqrt(),
            "pown" => (&v).pow($k.expect("number")),
            "npow" => $k.expect("number").pow(&v),
            other => panic!("harness: unknown real op {}", other),
        }
    }};
}

impl Elt for Fp {
    fn t_real_full<S: TensorRef<(Fp, Index), D>, const D: usize>(
        v: RecordTensor<'static, Fp, S, D>,
        op: &str,
        via: &str,
        k: Option<&Fp>,
    ) -> RT<Fp, D> {
        real_body_full!(v, op, via, k)
    }
    fn t_real_lite<S: TensorRef<(Fp, Index), D>, const D: usize>(v: RecordTensor<'static, Fp, S, D>, op: &str, k: Option<&Fp>) -> RT<Fp, D> {
        real_body_lite!(v, op, k)
    }
    fn m_real_full<S: MatrixRef<(Fp, Index)> + NoInteriorMutability>(
        v: RecordMatrix<'static, Fp, S>,
        op: &str,
        via: &str,
        k: Option<&Fp>,
    ) -> RM<Fp> {
        real_body_full!(v, op, via, k)
    }
    fn m_real_lite<S: MatrixRef<(Fp, Index)> + NoInteriorMutability>(v: RecordMatrix<'static, Fp, S>, op: &str, k: Option<&Fp>) -> RM<Fp> {
        real_body_lite!(v, op, k)
    }
    fn rec_real(x: &Rc<Fp>, op: &str, k: Option<&Fp>) -> Rc<Fp> {
        match op {
            "sin" => x.sin(),
            "cos" => x.cos(),
            "exp" => x.exp(),
            "ln" => x.ln(),
            "sqrt" => x.sqrt(),
            "pown" => x.pow(k.unwrap()),
            "npow" => k.unwrap().pow(x),
            other => panic!("harness: unknown real op {}", other),
        }
    }
}

impl Elt for Rat {
    fn t_real_full<S: TensorRef<(Rat, Index), D>, const D: usize>(
        _v: RecordTensor<'static, Rat, S, D>,
        _op: &str,
        _via: &str,
        _k: Option<&Rat>,
    ) -> RT<Rat, D> {
        panic!("harness: no real functions for Rat")
    }
    fn t_real_lite<S: TensorRef<(Rat, Index), D>, const D: usize>(_v: RecordTensor<'static, Rat, S, D>, _op: &str, _k: Option<&Rat>) -> RT<Rat, D> {
        panic!("harness: no real functions for Rat")
    }
    fn m_real_full<S: MatrixRef<(Rat, Index)> + NoInteriorMutability>(
        _v: RecordMatrix<'static, Rat, S>,
        _op: &str,
        _via: &str,
        _k: Option<&Rat>,
    ) -> RM<Rat> {
        panic!("harness: no real functions for Rat")
    }
    fn m_real_lite<S: MatrixRef<(Rat, Index)> + NoInteriorMutability>(_v: RecordMatrix<'static, Rat, S>, _op: &str, _k: Option<&Rat>) -> RM<Rat> {
        panic!("harness: no real functions for Rat")
    }
    fn rec_real(_x: &Rc<Rat>, _op: &str, _k: Option<&Rat>) -> Rc<Rat> {
        panic!("harness: no real functions for Rat")
    }
}

pub const REAL_OPS: [&str; 7] = ["sin", "cos", "exp", "ln", "sqrt", "pown", "npow"];

// ---------------------------------------------------------------------------------------------
// function tables
// ---------------------------------------------------------------------------------------------

/// `(f, f_x, f_y)` for `binary`, `binary_left_assign`, `binary_right_assign`: the four standard
/// functions written as in functions.rs, and the user functions of c04.rs.
pub fn bfn_triple<T>(name: &str) -> (F2<T>, F2<T>, F2<T>)
where
    T: Numeric + 'static,
    for<'a> &'a T: NumericRef<T>,
{
    match name {
        "add" => (Box::new(|x: T, y: T| x + y), Box::new(|_x: T, _y: T| T::one()), Box::new(|_x: T, _y: T| T::one())),
        "sub" => (Box::new(|x: T, y: T| x - y), Box::new(|_x: T, _y: T| T::one()), Box::new(|_x: T, _y: T| -T::one())),
        "mul" => (Box::new(|x: T, y: T| x * y), Box::new(|_x: T, y: T| y), Box::new(|x: T, _y: T| x)),
        "div" => (
            Box::new(|x: T, y: T| x / y),
            Box::new(|_x: T, y: T| T::one() / y),
            Box::new(|x: T, y: T| -x / (y.clone() * y)),
        ),
        other => binary_fn::<T>(other),
    }
}

pub const BFNS: [&str; 7] = ["add", "sub", "mul", "div", "axy", "wsum", "psq"];
pub const RECFNS_PLAIN: [&str; 5] = ["id", "sq", "aff", "konst", "half"];
pub const RECFNS_INDEXED: [&str; 2] = ["alt", "scale"];

/// Named functions `Record -> Record` (same table as `recFn` in lean/Driver/C06.lean); `k` is
/// the element's row-major position, `tapes` the lists `lift.<t>` creates variables on.
pub fn rec_fn<T>(name: &str, tapes: Vec<&'static WengertList<T>>) -> Box<dyn Fn(usize, Rc<T>) -> Rc<T>>
where
    T: Elt,
    for<'a> &'a T: NumericRef<T>,
{
    let parts: Vec<&str> = name.split('.').collect();
    match parts[0] {
        "id" => Box::new(|_k, x| x),
        "sq" => Box::new(|_k, x| &x * &x),
        "aff" => Box::new(|_k, x| x * two::<T>() + T::one()),
        "konst" => Box::new(|_k, x| Record::constant(x.number)),
        "lift" => {
            let t: usize = parts[1].parse().expect("tape");
            let list = tapes[t];
            Box::new(move |_k, x| Record::variable(x.number, list))
        }
        "half" => Box::new(|_k, x| if x.number < T::zero() { Record::constant(x.number) } else { x }),
        "alt" => Box::new(|k, x| if k % 2 == 0 { x } else { Record::constant(x.number) }),
        "scale" => Box::new(|k, x| x * T::from_usize(k + 1).expect("from_usize")),
        other => panic!("harness: unknown record function {}", other),
    }
}

// ---------------------------------------------------------------------------------------------
// generic operations on containers over any source
// ---------------------------------------------------------------------------------------------

macro_rules! forms4 {
    ($via:expr, $a:expr, $b:expr, $op:tt) => {
        match $via {
            "val_val" => $a $op $b,
            "val_ref" => $a $op &$b,
            "ref_val" => &$a $op $b,
            "ref_ref" => &$a $op &$b,
            other => panic!("harness: unknown form {}", other),
        }
    };
}

macro_rules! bin_body_full {
    ($a:expr, $b:expr, $op:expr, $via:expr, $fns:expr) => {{
        let (a, b) = ($a, $b);
        match $op {
            "add" => forms4!($via, a, b, +),
            "sub" => forms4!($via, a, b, -),
            "emul" => a.elementwise_multiply(&b),
            "ediv" => a.elementwise_divide(&b),
            "binary" => {
                let (f, dfx, dfy) = $fns.expect("fn");
                a.binary(&b, |x, y| f(x, y), |x, y| dfx(x, y), |x, y| dfy(x, y))
            }
            other => panic!("harness: unknown binary op {}", other),
        }
    }};
}

macro_rules! bin_body_lite {
    ($a:expr, $b:expr, $op:expr, $fns:expr) => {{
        let (a, b) = ($a, $b);
        match $op {
            "add" => &a + &b,
            "sub" => &a - &b,
            "emul" => a.elementwise_multiply(&b),
            "ediv" => a.elementwise_divide(&b),
            "binary" => {
                let (f, dfx, dfy) = $fns.expect("fn");
                a.binary(&b, |x, y| f(x, y), |x, y| dfx(x, y), |x, y| dfy(x, y))
            }
            other => panic!("harness: unknown binary op {}", other),
        }
    }};
}

type Fns3<'f, T> = Option<&'f (F2<T>, F2<T>, F2<T>)>;
type Fns2<'f, T> = Option<&'f (F1<T>, F1<T>)>;

fn t_bin_full<T, S1, S2, const D: usize>(
    a: RecordTensor<'static, T, S1, D>,
    b: RecordTensor<'static, T, S2, D>,
    op: &str,
    via: &str,
    fns: Fns3<T>,
) -> RT<T, D>
where
    T: Elt,
    for<'x> &'x T: NumericRef<T>,
    S1: TensorRef<(T, Index), D>,
    S2: TensorRef<(T, Index), D>,
{
    bin_body_full!(a, b, op, via, fns)
}

fn t_bin_lite<T, S1, S2, const D: usize>(a: RecordTensor<'static, T, S1, D>, b: RecordTensor<'static, T, S2, D>, op: &str, fns: Fns3<T>) -> RT<T, D>
where
    T: Elt,
    for<'x> &'x T: NumericRef<T>,
    S1: TensorRef<(T, Index), D>,
    S2: TensorRef<(T, Index), D>,
{
    bin_body_lite!(a, b, op, fns)
}

fn m_bin_full<T, S1, S2>(a: RecordMatrix<'static, T, S1>, b: RecordMatrix<'static, T, S2>, op: &str, via: &str, fns: Fns3<T>) -> RM<T>
where
    T: Elt,
    for<'x> &'x T: NumericRef<T>,
    S1: MatrixRef<(T, Index)> + NoInteriorMutability,
    S2: MatrixRef<(T, Index)> + NoInteriorMutability,
{
    bin_body_full!(a, b, op, via, fns)
}

fn m_bin_lite<T, S1, S2>(a: RecordMatrix<'static, T, S1>, b: RecordMatrix<'static, T, S2>, op: &str, fns: Fns3<T>) -> RM<T>
where
    T: Elt,
    for<'x> &'x T: NumericRef<T>,
    S1: MatrixRef<(T, Index)> + NoInteriorMutability,
    S2: MatrixRef<(T, Index)> + NoInteriorMutability,
{
    bin_body_lite!(a, b, op, fns)
}

fn t_matmul_full<T, S1, S2>(a: RecordTensor<'static, T, S1, 2>, b: RecordTensor<'static, T, S2, 2>, via: &str) -> RT<T, 2>
where
    T: Elt,
    for<'x> &'x T: NumericRef<T>,
    S1: TensorRef<(T, Index), 2>,
    S2: TensorRef<(T, Index), 2>,
{
    forms4!(via, a, b, *)
}

fn t_matmul_lite<T, S1, S2>(a: RecordTensor<'static, T, S1, 2>, b: RecordTensor<'static, T, S2, 2>) -> RT<T, 2>
where
    T: Elt,
    for<'x> &'x T: NumericRef<T>,
    S1: TensorRef<(T, Index), 2>,
    S2: TensorRef<(T, Index), 2>,
{
    &a * &b
}

fn m_matmul_full<T, S1, S2>(a: RecordMatrix<'static, T, S1>, b: RecordMatrix<'static, T, S2>, via: &str) -> RM<T>
where
    T: Elt,
    for<'x> &'x T: NumericRef<T>,
    S1: MatrixRef<(T, Index)> + NoInteriorMutability,
    S2: MatrixRef<(T, Index)> + NoInteriorMutability,
{
    forms4!(via, a, b, *)
}

fn m_matmul_lite<T, S1, S2>(a: RecordMatrix<'static, T, S1>, b: RecordMatrix<'static, T, S2>) -> RM<T>
where
    T: Elt,
    for<'x> &'x T: NumericRef<T>,
    S1: MatrixRef<(T, Index)> + NoInteriorMutability,
    S2: MatrixRef<(T, Index)> + NoInteriorMutability,
{
    &a * &b
}

macro_rules! un_body_full {
    ($T:ty, $v:expr, $op:expr, $via:expr, $k:expr, $fns:expr, $real:path) => {{
        let v = $v;
        match $op {
            "addn" => { let k = $k.expect("number").clone(); forms4!($via, v, k, +) }
            "subn" => { let k = $k.expect("number").clone(); forms4!($via, v, k, -) }
            "muln" => { let k = $k.expect("number").clone(); forms4!($via, v, k, *) }
            "divn" => { let k = $k.expect("number").clone(); forms4!($via, v, k, /) }
            "subsw" => {
                let k = $k.expect("number").clone();
                match $via {
                    "val_val" => v.sub_swapped(k),
                    "val_ref" => v.sub_swapped(&k),
                    "ref_val" => (&v).sub_swapped(k),
                    _ => (&v).sub_swapped(&k),
                }
            }
            "divsw" => {
                let k = $k.expect("number").clone();
                match $via {
                    "val_val" => v.div_swapped(k),
                    "val_ref" => v.div_swapped(&k),
                    "ref_val" => (&v).div_swapped(k),
                    _ => (&v).div_swapped(&k),
                }
            }
            "neg" => if $via == "ref" { -&v } else { -v },
            "unary" => {
                let (f, df): &(F1<$T>, F1<$T>) = $fns.expect("fn");
                v.unary(|x| f(x), |x| df(x))
            }
            _ => $real(v, $op, $via, $k),
        }
    }};
}

macro_rules! un_body_lite {
    ($T:ty, $v:expr, $op:expr, $k:expr, $fns:expr, $real:path) => {{
        let v = $v;
        match $op {
            "addn" => &v + $k.expect("number"),
            "subn" => &v - $k.expect("number"),
            "muln" => &v * $k.expect("number"),
            "divn" => &v / $k.expect("number"),
            "subsw" => (&v).sub_swapped($k.expect("number")),
            "divsw" => (&v).div_swapped($k.expect("number")),
            "neg" => -&v,
            "unary" => {
                let (f, df): &(F1<$T>, F1<$T>) = $fns.expect("fn");
                v.unary(|x| f(x), |x| df(x))
            }
            _ => $real(v, $op, $k),
        }
    }};
}

fn t_un_full<T, S, const D: usize>(v: RecordTensor<'static, T, S, D>, op: &str, via: &str, k: Option<&T>, fns: Fns2<T>) -> RT<T, D>
where
    T: Elt,
    for<'x> &'x T: NumericRef<T>,
    S: TensorRef<(T, Index), D>,
{
    un_body_full!(T, v, op, via, k, fns, T::t_real_full)
}

fn t_un_lite<T, S, const D: usize>(v: RecordTensor<'static, T, S, D>, op: &str, k: Option<&T>, fns: Fns2<T>) -> RT<T, D>
where
    T: Elt,
    for<'x> &'x T: NumericRef<T>,
    S: TensorRef<(T, Index), D>,
{
    un_body_lite!(T, v, op, k, fns, T::t_real_lite)
}

fn m_un_full<T, S>(v: RecordMatrix<'static, T, S>, op: &str, via: &str, k: Option<&T>, fns: Fns2<T>) -> RM<T>
where
    T: Elt,
    for<'x> &'x T: NumericRef<T>,
    S: MatrixRef<(T, Index)> + NoInteriorMutability,
{
    un_body_full!(T, v, op, via, k, fns, T::m_real_full)
}

fn m_un_lite<T, S>(v: RecordMatrix<'static, T, S>, op: &str, k: Option<&T>, fns: Fns2<T>) -> RM<T>
where
    T: Elt,
    for<'x> &'x T: NumericRef<T>,
    S: MatrixRef<(T, Index)> + NoInteriorMutability,
{
    un_body_lite!(T, v, op, k, fns, T::m_real_lite)
}

// ---------------------------------------------------------------------------------------------
// the case
// ---------------------------------------------------------------------------------------------

pub enum AnyC<T: Primitive + 'static> {
    T1(RT<T, 1>),
    T2(RT<T, 2>),
    T3(RT<T, 3>),
    M(RM<T>),
}

impl<T: Elt> AnyC<T>
where
    for<'x> &'x T: NumericRef<T>,
{
    fn is_matrix(&self) -> bool {
        matches!(self, AnyC::M(_))
    }
    fn shape(&self) -> Sh {
        match self {
            AnyC::T1(c) => c.shape().to_vec(),
            AnyC::T2(c) => c.shape().to_vec(),
            AnyC::T3(c) => c.shape().to_vec(),
            AnyC::M(c) => vec![("r", c.rows()), ("c", c.columns())],
        }
    }
    fn history(&self) -> Option<&'static WengertList<T>> {
        match self {
            AnyC::T1(c) => c.history(),
            AnyC::T2(c) => c.history(),
            AnyC::T3(c) => c.history(),
            AnyC::M(c) => c.history(),
        }
    }
    /// `(number, index)` in row-major order
    fn elems(&self) -> Vec<(T, Index)> {
        match self {
            AnyC::T1(c) => c.view().iter().collect(),
            AnyC::T2(c) => c.view().iter().collect(),
            AnyC::T3(c) => c.view().iter().collect(),
            AnyC::M(c) => c.view().row_major_iter().collect(),
        }
    }
}

pub struct Slot<T: Primitive + 'static> {
    c: AnyC<T>,
    /// the scalar mirror, row-major; `None` once the mirror could not follow
    shadow: Option<Vec<Rc<T>>>,
    /// mixed histories inside (after a failed `map_mut`): constness is not compared
    mixed: bool,
}

pub struct CaseG<T: Primitive + 'static> {
    // field order matters: containers and records are dropped before the tapes
    slots: HashMap<String, Slot<T>>,
    tapes: Vec<TapeBox<T>>,
    stapes: Vec<TapeBox<T>>,
}

fn tensor_from<T: Elt, const D: usize>(shape: &Sh, vals: Vec<T>) -> Tensor<T, D> {
    Tensor::from(shape_array::<D>(shape), vals)
}

fn same<T: PartialEq>(a: &[T], b: &[T]) -> bool {
    a.len() == b.len() && a.iter().zip(b).all(|(x, y)| x == y)
}

fn shape_elems(shape: &Sh) -> usize {
    shape.iter().map(|x| x.1).product()
}

impl<T> CaseG<T>
where
    T: Elt,
    for<'x> &'x T: NumericRef<T>,
{
    pub fn new(n: usize) -> CaseG<T> {
        CaseG {
            slots: HashMap::new(),
            tapes: (0..n).map(|_| TapeBox::new()).collect(),
            stapes: (0..n).map(|_| TapeBox::new()).collect(),
        }
    }

    fn tape_id(&self, h: Option<&WengertList<T>>) -> String {
        match h {
            None => "none".into(),
            Some(h) => (0..self.tapes.len())
                .find(|&t| std::ptr::eq(h, self.tapes[t].get()))
                .map(|t| t.to_string())
                .unwrap_or_else(|| "?".into()),
        }
    }

    fn lists(&self, shadow: bool) -> Vec<&'static WengertList<T>> {
        (if shadow { &self.stapes } else { &self.tapes }).iter().map(|t| t.get()).collect()
    }

    /// the answer for a stored container, with the comparison against its scalar mirror
    fn answer(&self, name: &str) -> String {
        let slot = &self.slots[name];
        let elems = slot.c.elems();
        let vals: Vec<T> = elems.iter().map(|e| e.0.clone()).collect();
        let idx: Vec<usize> = elems.iter().map(|e| e.1).collect();
        let is_const = slot.c.history().is_none();
        let scalar = match &slot.shadow {
            None => "skip".to_string(),
            Some(recs) => {
                let svals: Vec<T> = recs.iter().map(|r| r.number.clone()).collect();
                let sconst = recs.iter().all(|r| r.history().is_none());
                if same(&svals, &vals) && (slot.mixed || sconst == is_const) {
                    "ok".to_string()
                } else {
                    format!("DIFF(v={},const={})", show_list(&svals), if sconst { 1 } else { 0 })
                }
            }
        };
        format!(
            "shape={} const={} v={} scalar={} ## idx={}",
            show_shape(&slot.c.shape()),
            if is_const { 1 } else { 0 },
            show_list(&vals),
            scalar,
            show_usizes(&idx)
        )
    }

    fn put(&mut self, name: &str, c: AnyC<T>, shadow: Option<Vec<Rc<T>>>) {
        self.slots.insert(name.to_string(), Slot { c, shadow, mixed: false });
    }

    /// operand token -> (name, view spec, view shape, offsets); `Err`: the answer for an unknown
    /// name / an impossible view.  The reordering / range / reverse source kinds are driven for
    /// two dimensional tensors and for matrices only.
    fn operand(&self, tok: &str) -> Result<(String, ViewSpec, Sh, Vec<usize>), String> {
        let (n, spec) = parse_operand(tok).ok_or("bad-ref")?;
        let slot = self.slots.get(n).ok_or("bad-ref")?;
        let shape = slot.c.shape();
        if !spec.is_basic() && shape.len() != 2 {
            return Err("bad-view".into());
        }
        let (vs, offs) = view_of(&shape, &spec, slot.c.is_matrix()).ok_or("bad-ref")?;
        Ok((n.to_string(), spec, vs, offs))
    }

    fn shadow_view(&self, name: &str, offs: &[usize]) -> Option<Vec<Rc<T>>> {
        self.slots[name].shadow.as_ref().map(|recs| offs.iter().map(|&o| recs[o].clone()).collect())
    }

    // -----------------------------------------------------------------------------------------

    fn create(&mut self, toks: &[&str]) -> String {
        let is_var = toks[0] == "vars";
        let (name, kind, shape, vals) = (toks[1], toks[2], parse_shape(toks[3]), split_comma(toks[4]));
        let vals: Vec<T> = vals.iter().map(|s| T::parse(s)).collect();
        let t: usize = opt_arg("t", toks).map(|s| s.parse().unwrap()).unwrap_or(0);
        let list = if is_var { Some(self.tapes[t].get()) } else { None };
        macro_rules! mk {
            ($D:literal, $variant:ident) => {{
                let tensor = tensor_from::<T, $D>(&shape, vals.clone());
                catch(|| {
                    AnyC::$variant(match list {
                        Some(l) => RecordTensor::variables(l, tensor),
                        None => RecordTensor::constants(tensor),
                    })
                })
            }};
        }
        let c = match (kind, shape.len()) {
            ("M", 2) => {
                let m = Matrix::from_flat_row_major((shape[0].1, shape[1].1), vals.clone());
                catch(|| {
                    AnyC::M(match list {
                        Some(l) => RecordMatrix::variables(l, m),
                        None => RecordMatrix::constants(m),
                    })
                })
            }
            ("T", 1) => mk!(1, T1),
            ("T", 2) => mk!(2, T2),
            ("T", 3) => mk!(3, T3),
            _ => return "bad-op".into(),
        };
        let c = match c {
            Ok(c) => c,
            Err(k) => return panic_str(k),
        };
        let slist = self.stapes[t].get();
        let shadow: Vec<Rc<T>> = vals
            .iter()
            .map(|x| if is_var { Record::variable(x.clone(), slist) } else { Record::constant(x.clone()) })
            .collect();
        self.put(name, c, Some(shadow));
        self.answer(name)
    }

    fn unary_line(&mut self, toks: &[&str]) -> String {
        let op = toks[0];
        let via = opt_arg("via", toks).unwrap_or("ref_ref");
        let (res, atok, k): (&str, &str, Option<T>) = match op {
            "npow" => (toks[1], toks[3], Some(T::parse(toks[2]))),
            "addn" | "subn" | "muln" | "divn" | "subsw" | "divsw" | "pown" => (toks[1], toks[2], Some(T::parse(toks[3]))),
            _ => (toks[1], toks[2], None),
        };
        let (an, spec, _vs, offs) = match self.operand(atok) {
            Ok(x) => x,
            Err(e) => return e,
        };
        let fns: Option<(F1<T>, F1<T>)> = if op == "unary" { Some(unary_fn::<T>(opt_arg("fn", toks).unwrap())) } else { None };
        let slot = &self.slots[&an];
        let kr = k.as_ref();
        let fr = fns.as_ref();
        let basic = spec.is_basic();
        let out: Result<AnyC<T>, PanicKind> = match &slot.c {
            AnyC::T1(c) => tview_basic!(1, c, &spec, v => catch(move || AnyC::T1(t_un_full::<T, _, 1>(v, op, via, kr, fr)))),
            AnyC::T2(c) if basic => tview_basic!(2, c, &spec, v => catch(move || AnyC::T2(t_un_full::<T, _, 2>(v, op, via, kr, fr)))),
            AnyC::T2(c) => tview_fancy!(2, c, &spec, v => catch(move || AnyC::T2(t_un_lite::<T, _, 2>(v, op, kr, fr)))),
            AnyC::T3(c) => tview_basic!(3, c, &spec, v => catch(move || AnyC::T3(t_un_full::<T, _, 3>(v, op, via, kr, fr)))),
            AnyC::M(c) if basic => mview_basic!(c, &spec, v => catch(move || AnyC::M(m_un_full::<T, _>(v, op, via, kr, fr)))),
            AnyC::M(c) => mview_fancy!(c, &spec, v => catch(move || AnyC::M(m_un_lite::<T, _>(v, op, kr, fr)))),
        };
        let out = match out {
            Ok(c) => c,
            Err(kind) => return panic_str(kind),
        };
        let shadow = self.shadow_view(&an, &offs).and_then(|recs| {
            catch(|| recs.iter().map(|x| scalar_unary::<T>(x, op, kr, fr)).collect::<Vec<Rc<T>>>()).ok()
        });
        self.put(res, out, shadow);
        self.answer(res)
    }

    fn binary_line(&mut self, toks: &[&str]) -> String {
        let op = toks[0];
        let via = opt_arg("via", toks).unwrap_or("ref_ref");
        let res = toks[1];
        let (a, b) = match (self.operand(toks[2]), self.operand(toks[3])) {
            (Ok(a), Ok(b)) => (a, b),
            (Err(e), _) | (_, Err(e)) => return e,
        };
        let fns: Option<(F2<T>, F2<T>, F2<T>)> = if op == "binary" { Some(bfn_triple::<T>(opt_arg("fn", toks).unwrap())) } else { None };
        let fr = fns.as_ref();
        let (sa, sb) = (&self.slots[&a.0], &self.slots[&b.0]);
        let (spa, spb) = (&a.1, &b.1);
        // every ownership form with the owned / borrowed source kinds; one of the operands may
        // instead have one of the other source kinds (all-references form)
        let (ba, bb) = (spa.is_basic(), spb.is_basic());
        if !ba && !bb {
            return "bad-view".into();
        }
        let out: Result<AnyC<T>, PanicKind> = if op == "matmul" {
            match (&sa.c, &sb.c) {
                (AnyC::T2(x), AnyC::T2(y)) if ba && bb => tview_basic!(2, x, spa, va => tview_basic!(2, y, spb, vb => catch(move || AnyC::T2(t_matmul_full::<T, _, _>(va, vb, via))))),
                (AnyC::T2(x), AnyC::T2(y)) if bb => tview_fancy!(2, x, spa, va => tview_basic!(2, y, spb, vb => catch(move || AnyC::T2(t_matmul_lite::<T, _, _>(va, vb))))),
                (AnyC::T2(x), AnyC::T2(y)) => tview_basic!(2, x, spa, va => tview_fancy!(2, y, spb, vb => catch(move || AnyC::T2(t_matmul_lite::<T, _, _>(va, vb))))),
                (AnyC::M(x), AnyC::M(y)) if ba && bb => mview_basic!(x, spa, va => mview_basic!(y, spb, vb => catch(move || AnyC::M(m_matmul_full::<T, _, _>(va, vb, via))))),
                (AnyC::M(x), AnyC::M(y)) if bb => mview_fancy!(x, spa, va => mview_basic!(y, spb, vb => catch(move || AnyC::M(m_matmul_lite::<T, _, _>(va, vb))))),
                (AnyC::M(x), AnyC::M(y)) => mview_basic!(x, spa, va => mview_fancy!(y, spb, vb => catch(move || AnyC::M(m_matmul_lite::<T, _, _>(va, vb))))),
                _ => return "bad-kind".into(),
            }
        } else {
            match (&sa.c, &sb.c) {
                (AnyC::T1(x), AnyC::T1(y)) => tview_basic!(1, x, spa, va => tview_basic!(1, y, spb, vb => catch(move || AnyC::T1(t_bin_full::<T, _, _, 1>(va, vb, op, via, fr))))),
                (AnyC::T2(x), AnyC::T2(y)) if ba && bb => tview_basic!(2, x, spa, va => tview_basic!(2, y, spb, vb => catch(move || AnyC::T2(t_bin_full::<T, _, _, 2>(va, vb, op, via, fr))))),
                (AnyC::T2(x), AnyC::T2(y)) if bb => tview_fancy!(2, x, spa, va => tview_basic!(2, y, spb, vb => catch(move || AnyC::T2(t_bin_lite::<T, _, _, 2>(va, vb, op, fr))))),
                (AnyC::T2(x), AnyC::T2(y)) => tview_basic!(2, x, spa, va => tview_fancy!(2, y, spb, vb => catch(move || AnyC::T2(t_bin_lite::<T, _, _, 2>(va, vb, op, fr))))),
                (AnyC::T3(x), AnyC::T3(y)) => tview_basic!(3, x, spa, va => tview_basic!(3, y, spb, vb => catch(move || AnyC::T3(t_bin_full::<T, _, _, 3>(va, vb, op, via, fr))))),
                (AnyC::M(x), AnyC::M(y)) if ba && bb => mview_basic!(x, spa, va => mview_basic!(y, spb, vb => catch(move || AnyC::M(m_bin_full::<T, _, _>(va, vb, op, via, fr))))),
                (AnyC::M(x), AnyC::M(y)) if bb => mview_fancy!(x, spa, va => mview_basic!(y, spb, vb => catch(move || AnyC::M(m_bin_lite::<T, _, _>(va, vb, op, fr))))),
                (AnyC::M(x), AnyC::M(y)) => mview_basic!(x, spa, va => mview_fancy!(y, spb, vb => catch(move || AnyC::M(m_bin_lite::<T, _, _>(va, vb, op, fr))))),
                _ => return "bad-kind".into(),
            }
        };
        let out = match out {
            Ok(c) => c,
            Err(kind) => return panic_str(kind),
        };
        let shadow: Option<Result<Vec<Rc<T>>, PanicKind>> = match (self.shadow_view(&a.0, &a.3), self.shadow_view(&b.0, &b.3)) {
            (Some(ra), Some(rb)) => Some(if op == "matmul" {
                let (m, n, l) = (a.2[0].1, a.2[1].1, b.2[1].1);
                catch(|| scalar_matmul::<T>(&ra, &rb, m, n, l))
            } else {
                catch(|| ra.iter().zip(rb.iter()).map(|(x, y)| scalar_binary::<T>(x, y, op, fr)).collect::<Vec<Rc<T>>>())
            }),
            _ => None,
        };
        match shadow {
            Some(Ok(v)) => {
                self.put(res, out, Some(v));
                self.answer(res)
            }
            Some(Err(kind)) => {
                // the scalar computation panicked where the container one did not
                self.put(res, out, None);
                self.answer(res).replace("scalar=skip", &format!("scalar=DIFF({})", panic_str(kind)))
            }
            None => {
                self.put(res, out, None);
                self.answer(res)
            }
        }
    }

    /// writes the new scalar records of an assigning operation back through the view
    fn shadow_store(&mut self, name: &str, offs: &[usize], new: Option<Vec<Rc<T>>>) {
        let slot = self.slots.get_mut(name).unwrap();
        match (slot.shadow.as_mut(), new) {
            (Some(recs), Some(new)) => {
                for (o, r) in offs.iter().zip(new.into_iter()) {
                    recs[*o] = r;
                }
            }
            _ => slot.shadow = None,
        }
    }

    fn uassign_line(&mut self, toks: &[&str]) -> String {
        let via = opt_arg("via", toks).unwrap_or("assign");
        let (an, spec, _vs, offs) = match self.operand(toks[1]) {
            Ok(x) => x,
            Err(e) => return e,
        };
        let fns = unary_fn::<T>(opt_arg("fn", toks).unwrap());
        let (f, df) = (&fns.0, &fns.1);
        macro_rules! body {
            ($v:ident) => {
                catch(move || {
                    if via == "do" {
                        $v.do_unary_assign(|x| f(x), |x| df(x))
                    } else {
                        let mut v = $v;
                        v.unary_assign(|x| f(x), |x| df(x));
                        v
                    }
                })
            };
        }
        let slot = self.slots.get_mut(&an).unwrap();
        let r: Result<(), PanicKind> = match &mut slot.c {
            AnyC::T1(c) => tview_basic_mut!(1, c, &spec, v => body!(v)),
            AnyC::T2(c) => tview_mut!(2, c, &spec, v => body!(v)),
            AnyC::T3(c) => tview_basic_mut!(3, c, &spec, v => body!(v)),
            AnyC::M(c) => mview_mut!(c, &spec, v => body!(v)),
        };
        if let Err(kind) = r {
            return panic_str(kind);
        }
        let fr = Some(&fns);
        let new = self
            .shadow_view(&an, &offs)
            .and_then(|recs| catch(|| recs.iter().map(|x| scalar_unary::<T>(x, "unary", None, fr)).collect::<Vec<Rc<T>>>()).ok());
        self.shadow_store(&an, &offs, new);
        self.answer(&an)
    }

    /// `lassign a b`: `a.binary_left_assign(&b, …)`; `rassign a b`: `a.binary_right_assign(&mut b, …)`
    fn bassign_line(&mut self, toks: &[&str]) -> String {
        let left = toks[0] == "lassign";
        let via = opt_arg("via", toks).unwrap_or("assign");
        let (a, b) = match (self.operand(toks[1]), self.operand(toks[2])) {
            (Ok(a), Ok(b)) => (a, b),
            (Err(e), _) | (_, Err(e)) => return e,
        };
        let fns = bfn_triple::<T>(opt_arg("fn", toks).unwrap());
        let (f, dfx, dfy) = (&fns.0, &fns.1, &fns.2);
        // the overwritten side is `target`, the other one is only read (through a copy, so that
        // one container can be both)
        let (target, other) = if left { (&a, &b) } else { (&b, &a) };
        let other_copy: AnyC<T> = match &self.slots[&other.0].c {
            AnyC::T1(c) => AnyC::T1(c.clone()),
            AnyC::T2(c) => AnyC::T2(c.clone()),
            AnyC::T3(c) => AnyC::T3(c.clone()),
            AnyC::M(c) => AnyC::M(c.clone()),
        };
        let (tspec, ospec) = (&target.1, &other.1);
        macro_rules! body {
            ($t:ident, $o:ident) => {
                catch(move || {
                    if left {
                        if via == "do" {
                            $t.do_binary_left_assign(&$o, |x, y| f(x, y), |x, y| dfx(x, y), |x, y| dfy(x, y))
                        } else {
                            let mut t = $t;
                            t.binary_left_assign(&$o, |x, y| f(x, y), |x, y| dfx(x, y), |x, y| dfy(x, y));
                            t
                        }
                    } else if via == "do" {
                        $o.do_binary_right_assign($t, |x, y| f(x, y), |x, y| dfx(x, y), |x, y| dfy(x, y))
                    } else {
                        let mut t = $t;
                        $o.binary_right_assign(&mut t, |x, y| f(x, y), |x, y| dfx(x, y), |x, y| dfy(x, y));
                        t
                    }
                })
            };
        }
        // the `do_…` (by value) forms with the owned / borrowed source kinds only
        macro_rules! body_lite {
            ($t:ident, $o:ident) => {
                catch(move || {
                    let mut t = $t;
                    if left {
                        t.binary_left_assign(&$o, |x, y| f(x, y), |x, y| dfx(x, y), |x, y| dfy(x, y));
                    } else {
                        $o.binary_right_assign(&mut t, |x, y| f(x, y), |x, y| dfx(x, y), |x, y| dfy(x, y));
                    }
                    t
                })
            };
        }
        let (bt, bo) = (tspec.is_basic(), ospec.is_basic());
        if !bt && !bo {
            return "bad-view".into();
        }
        let slot = self.slots.get_mut(&target.0).unwrap();
        let r: Result<(), PanicKind> = match (&mut slot.c, &other_copy) {
            (AnyC::T1(c), AnyC::T1(o)) => tview_basic!(1, o, ospec, vo => tview_basic_mut!(1, c, tspec, vt => body!(vt, vo))),
            (AnyC::T2(c), AnyC::T2(o)) if bt && bo => tview_basic!(2, o, ospec, vo => tview_basic_mut!(2, c, tspec, vt => body!(vt, vo))),
            (AnyC::T2(c), AnyC::T2(o)) if bo => tview_basic!(2, o, ospec, vo => tview_fancy_mut!(2, c, tspec, vt => body_lite!(vt, vo))),
            (AnyC::T2(c), AnyC::T2(o)) => tview_fancy!(2, o, ospec, vo => tview_basic_mut!(2, c, tspec, vt => body_lite!(vt, vo))),
            (AnyC::T3(c), AnyC::T3(o)) => tview_basic!(3, o, ospec, vo => tview_basic_mut!(3, c, tspec, vt => body!(vt, vo))),
            (AnyC::M(c), AnyC::M(o)) if bt && bo => mview_basic!(o, ospec, vo => mview_basic_mut!(c, tspec, vt => body!(vt, vo))),
            (AnyC::M(c), AnyC::M(o)) if bo => mview_basic!(o, ospec, vo => mview_fancy_mut!(c, tspec, vt => body_lite!(vt, vo))),
            (AnyC::M(c), AnyC::M(o)) => mview_fancy!(o, ospec, vo => mview_basic_mut!(c, tspec, vt => body_lite!(vt, vo))),
            _ => return "bad-kind".into(),
        };
        if let Err(kind) = r {
            return panic_str(kind);
        }
        let fr = Some(&fns);
        let new = match (self.shadow_view(&a.0, &a.3), self.shadow_view(&b.0, &b.3)) {
            (Some(ra), Some(rb)) => {
                catch(|| ra.iter().zip(rb.iter()).map(|(x, y)| scalar_binary::<T>(x, y, "binary", fr)).collect::<Vec<Rc<T>>>()).ok()
            }
            _ => None,
        };
        let (tn, toffs) = (target.0.clone(), target.3.clone());
        self.shadow_store(&tn, &toffs, new);
        self.answer(&tn)
    }

    fn show_inconsistent(&self, first: Option<&WengertList<T>>, later: Option<&WengertList<T>>) -> String {
        format!("err(inconsistent first={} later={})", self.tape_id(first), self.tape_id(later))
    }

    fn map_line(&mut self, toks: &[&str]) -> String {
        let via = opt_arg("via", toks).unwrap_or("map");
        let res = toks[1];
        let (an, spec, vs, offs) = match self.operand(toks[2]) {
            Ok(x) => x,
            Err(e) => return e,
        };
        let fname = opt_arg("fn", toks).unwrap();
        let f = rec_fn::<T>(fname, self.lists(false));
        let st = strides(&vs);
        let flat = move |i: &[usize]| i.iter().zip(st.iter()).map(|(x, y)| x * y).sum::<usize>();
        let cols = vs.last().map(|x| x.1).unwrap_or(1);
        let slot = &self.slots[&an];
        macro_rules! tbody {
            ($v:ident, $variant:ident) => {
                catch(|| {
                    if via == "with_index" {
                        $v.map_with_index(|i, x| f(flat(&i), x)).map(AnyC::$variant)
                    } else {
                        $v.map(|x| f(0, x)).map(AnyC::$variant)
                    }
                })
            };
        }
        let out = match &slot.c {
            AnyC::T1(c) => tview_basic!(1, c, &spec, v => tbody!(v, T1)),
            AnyC::T2(c) => tview!(2, c, &spec, v => tbody!(v, T2)),
            AnyC::T3(c) => tview_basic!(3, c, &spec, v => tbody!(v, T3)),
            AnyC::M(c) => mview!(c, &spec, v => catch(|| {
                if via == "with_index" {
                    v.map_with_index(|x, r, c| f(r * cols + c, x)).map(AnyC::M)
                } else {
                    v.map(|x| f(0, x)).map(AnyC::M)
                }
            })),
        };
        // the scalar mirror runs the function too (its tape effects happen in any case)
        let sf = rec_fn::<T>(fname, self.lists(true));
        let shadow = self
            .shadow_view(&an, &offs)
            .and_then(|recs| catch(|| recs.into_iter().enumerate().map(|(k, x)| sf(k, x)).collect::<Vec<Rc<T>>>()).ok());
        match out {
            Err(kind) => panic_str(kind),
            Ok(Err(e)) => self.show_inconsistent(e.first, e.later),
            Ok(Ok(c)) => {
                self.put(res, c, shadow);
                self.answer(res)
            }
        }
    }

    fn mapmut_line(&mut self, toks: &[&str]) -> String {
        let via = opt_arg("via", toks).unwrap_or("map_mut");
        let (an, spec, vs, offs) = match self.operand(toks[1]) {
            Ok(x) => x,
            Err(e) => return e,
        };
        let fname = opt_arg("fn", toks).unwrap();
        let f = rec_fn::<T>(fname, self.lists(false));
        let sf = rec_fn::<T>(fname, self.lists(true));
        let st = strides(&vs);
        let flat = move |i: &[usize]| i.iter().zip(st.iter()).map(|(x, y)| x * y).sum::<usize>();
        let cols = vs.last().map(|x| x.1).unwrap_or(1);
        let mut err: Option<(Option<&'static WengertList<T>>, Option<&'static WengertList<T>>)> = None;
        let errp = &mut err;
        let fp = &f;
        let flatp = &flat;
        macro_rules! tbody {
            ($v:ident) => {
                catch(move || {
                    let mut v = $v;
                    let r = if via == "with_index" { v.map_mut_with_index(|i, x| fp(flatp(&i), x)) } else { v.map_mut(|x| fp(0, x)) };
                    if let Err(e) = r {
                        *errp = Some((e.first, e.later));
                    }
                    v
                })
            };
        }
        let slot = self.slots.get_mut(&an).unwrap();
        let r: Result<(), PanicKind> = match &mut slot.c {
            AnyC::T1(c) => tview_basic_mut!(1, c, &spec, v => tbody!(v)),
            AnyC::T2(c) => tview_mut!(2, c, &spec, v => tbody!(v)),
            AnyC::T3(c) => tview_basic_mut!(3, c, &spec, v => tbody!(v)),
            AnyC::M(c) => mview_mut!(c, &spec, v => catch(move || {
                let mut v = v;
                let r = if via == "with_index" { v.map_mut_with_index(|x, r, c| fp(r * cols + c, x)) } else { v.map_mut(|x| fp(0, x)) };
                if let Err(e) = r {
                    *errp = Some((e.first, e.later));
                }
                v
            })),
        };
        if let Err(kind) = r {
            return panic_str(kind);
        }
        let new = self
            .shadow_view(&an, &offs)
            .and_then(|recs| catch(|| recs.into_iter().enumerate().map(|(k, x)| sf(k, x)).collect::<Vec<Rc<T>>>()).ok());
        self.shadow_store(&an, &offs, new);
        match err {
            None => self.answer(&an),
            Some((first, later)) => {
                self.slots.get_mut(&an).unwrap().mixed = true;
                format!("{} {}", self.show_inconsistent(first, later), self.answer(&an))
            }
        }
    }

    /// the records an operand yields (`iter_as_records` in the requested order)
    fn records_of(&self, name: &str, spec: &ViewSpec, order: &str) -> Vec<Rc<T>> {
        let slot = &self.slots[name];
        let mut recs: Vec<Rc<T>> = match &slot.c {
            AnyC::T1(c) => tview_basic!(1, c, spec, v => v.iter_as_records().collect()),
            AnyC::T2(c) => tview!(2, c, spec, v => v.iter_as_records().collect()),
            AnyC::T3(c) => tview_basic!(3, c, spec, v => v.iter_as_records().collect()),
            AnyC::M(c) => mview!(c, spec, v => if order == "cm" {
                v.iter_column_major_as_records().collect()
            } else {
                v.iter_row_major_as_records().collect()
            }),
        };
        if order == "rev" {
            recs.reverse();
        }
        recs
    }

    fn column_major<X: Clone>(shape: &Sh, l: &[X]) -> Vec<X> {
        if shape.len() != 2 {
            return l.to_vec();
        }
        let (r, c) = (shape[0].1, shape[1].1);
        let mut out = vec![];
        for j in 0..c {
            for i in 0..r {
                out.push(l[i * c + j].clone());
            }
        }
        out
    }

    fn build_from_iter(to_matrix: bool, shape: &Sh, recs: Box<dyn Iterator<Item = Rc<T>> + '_>) -> Result<Result<AnyC<T>, String>, PanicKind> {
        use easy_ml::differentiation::iterators::InvalidRecordIteratorError as E;
        macro_rules! conv {
            ($r:expr, $variant:ident) => {
                match $r {
                    Ok(c) => Ok(AnyC::$variant(c)),
                    Err(E::Shape { .. }) => Err("err(shape)".to_string()),
                    Err(E::Empty) => Err("err(empty)".to_string()),
                    Err(E::InconsistentHistory(h)) => Err(format!("INC {:?} {:?}", h.first.map(|x| x as *const _ as usize), h.later.map(|x| x as *const _ as usize))),
                }
            };
        }
        catch(move || {
            if to_matrix {
                conv!(RecordMatrix::from_iter((shape[0].1, shape[1].1), recs), M)
            } else {
                match shape.len() {
                    1 => conv!(RecordTensor::from_iter(shape_array::<1>(shape), recs), T1),
                    2 => conv!(RecordTensor::from_iter(shape_array::<2>(shape), recs), T2),
                    3 => conv!(RecordTensor::from_iter(shape_array::<3>(shape), recs), T3),
                    _ => panic!("harness: dimensionality"),
                }
            }
        })
    }

    /// rewrites the address form of an inconsistent-history error into tape ids
    fn fix_inc(&self, s: String) -> String {
        if let Some(rest) = s.strip_prefix("INC ") {
            let parts: Vec<&str> = rest.split(' ').collect();
            let id = |p: &str| -> String {
                if p == "None" {
                    return "none".into();
                }
                let addr: usize = p.trim_start_matches("Some(").trim_end_matches(')').parse().unwrap_or(0);
                (0..self.tapes.len())
                    .find(|&t| self.tapes[t].get() as *const _ as usize == addr)
                    .map(|t| t.to_string())
                    .unwrap_or_else(|| "?".into())
            };
            format!("err(inconsistent first={} later={})", id(parts[0]), id(parts[1]))
        } else {
            s
        }
    }

    fn fromiter_line(&mut self, toks: &[&str]) -> String {
        let res = toks[1];
        let (an, spec, vs, offs) = match self.operand(toks[2]) {
            Ok(x) => x,
            Err(e) => return e,
        };
        let to_matrix = opt_arg("to", toks) == Some("M");
        let shape = parse_shape(opt_arg("shape", toks).unwrap());
        let order = opt_arg("order", toks).unwrap_or("rm");
        let fname = opt_arg("fn", toks).unwrap_or("id");
        let take: Option<usize> = opt_arg("take", toks).map(|s| s.parse().unwrap());
        let chain = match opt_arg("chain", toks) {
            None => None,
            Some(tok) => match self.operand(tok) {
                Ok(x) => Some(x),
                Err(e) => return e,
            },
        };
        let f = rec_fn::<T>(fname, self.lists(false));
        let sf = rec_fn::<T>(fname, self.lists(true));
        // main: the records of the operand(s) as the library's iterators yield them
        let mut recs = self.records_of(&an, &spec, order);
        if let Some(c) = &chain {
            recs.extend(self.records_of(&c.0, &c.1, "rm"));
        }
        let n = take.unwrap_or(recs.len());
        let iter: Box<dyn Iterator<Item = Rc<T>>> = Box::new(recs.into_iter().take(n).map(move |x| f(0, x)));
        let out = Self::build_from_iter(to_matrix, &shape, iter);
        // mirror
        let shadow = self.shadow_view(&an, &offs).and_then(|a| {
            let mut a = match order {
                "cm" => Self::column_major(&vs, &a),
                "rev" => a.into_iter().rev().collect(),
                _ => a,
            };
            if let Some(c) = &chain {
                a.extend(self.shadow_view(&c.0, &c.3)?);
            }
            catch(|| a.into_iter().take(n).map(|x| sf(0, x)).collect::<Vec<Rc<T>>>()).ok()
        });
        match out {
            Err(kind) => panic_str(kind),
            Ok(Err(e)) => self.fix_inc(e),
            Ok(Ok(c)) => {
                self.put(res, c, shadow);
                format!("ok {}", self.answer(res))
            }
        }
    }

    fn fromiters_line(&mut self, toks: &[&str]) -> String {
        use easy_ml::differentiation::iterators::InvalidRecordIteratorError as E;
        let names: Vec<&str> = split_comma(toks[1]);
        let (an, spec, _vs, offs) = match self.operand(toks[2]) {
            Ok(x) => x,
            Err(e) => return e,
        };
        let to_matrix = opt_arg("to", toks) == Some("M");
        let shape = parse_shape(opt_arg("shape", toks).unwrap());
        let fnames: Vec<&str> = split_comma(opt_arg("fn", toks).unwrap());
        if names.len() != 2 || fnames.len() != 2 {
            return "bad-op".into();
        }
        let (f1, f2) = (rec_fn::<T>(fnames[0], self.lists(false)), rec_fn::<T>(fnames[1], self.lists(false)));
        let (s1, s2) = (rec_fn::<T>(fnames[0], self.lists(true)), rec_fn::<T>(fnames[1], self.lists(true)));
        let recs = self.records_of(&an, &spec, "rm");
        let iter = recs.into_iter().map(move |x| {
            let y1 = f1(0, x.clone());
            let y2 = f2(0, x);
            [y1, y2]
        });
        macro_rules! conv {
            ($r:expr, $variant:ident) => {
                $r.map(|one| match one {
                    Ok(c) => Ok(AnyC::$variant(c)),
                    Err(E::Shape { .. }) => Err("err(shape)".to_string()),
                    Err(E::Empty) => Err("err(empty)".to_string()),
                    Err(E::InconsistentHistory(h)) => Err(format!("INC {:?} {:?}", h.first.map(|x| x as *const _ as usize), h.later.map(|x| x as *const _ as usize))),
                })
            };
        }
        let shape_ref = &shape;
        let out: Result<[Result<AnyC<T>, String>; 2], PanicKind> = catch(move || {
            if to_matrix {
                conv!(RecordMatrix::from_iters::<_, 2>((shape_ref[0].1, shape_ref[1].1), iter), M)
            } else {
                match shape_ref.len() {
                    1 => conv!(RecordTensor::from_iters::<_, 2>(shape_array::<1>(shape_ref), iter), T1),
                    2 => conv!(RecordTensor::from_iters::<_, 2>(shape_array::<2>(shape_ref), iter), T2),
                    3 => conv!(RecordTensor::from_iters::<_, 2>(shape_array::<3>(shape_ref), iter), T3),
                    _ => panic!("harness: dimensionality"),
                }
            }
        });
        let shadow: Option<(Vec<Rc<T>>, Vec<Rc<T>>)> = self.shadow_view(&an, &offs).and_then(|a| {
            catch(|| {
                let mut l1 = vec![];
                let mut l2 = vec![];
                for x in a {
                    l1.push(s1(0, x.clone()));
                    l2.push(s2(0, x));
                }
                (l1, l2)
            })
            .ok()
        });
        let out = match out {
            Err(kind) => return panic_str(kind),
            Ok(o) => o,
        };
        let (sh1, sh2) = match shadow {
            Some((a, b)) => (Some(a), Some(b)),
            None => (None, None),
        };
        let mut obs = vec![];
        let mut aux = vec![];
        for ((r, n), sh) in out.into_iter().zip(names.iter()).zip([sh1, sh2].into_iter()) {
            let a = match r {
                Err(e) => self.fix_inc(e),
                Ok(c) => {
                    self.put(n, c, sh);
                    format!("ok {}", self.answer(n))
                }
            };
            match a.split_once(" ## ") {
                Some((o, x)) => {
                    obs.push(o.to_string());
                    aux.push(x.to_string());
                }
                None => {
                    obs.push(a);
                    aux.push(String::new());
                }
            }
        }
        format!("{} ## {}", obs.join(" | "), aux.join(" | "))
    }

    fn reset_line(&mut self, toks: &[&str]) -> String {
        let via = opt_arg("via", toks).unwrap_or("reset");
        let (an, spec, _vs, offs) = match self.operand(toks[1]) {
            Ok(x) => x,
            Err(e) => return e,
        };
        let slot = self.slots.get_mut(&an).unwrap();
        macro_rules! body {
            ($v:ident, $Ty:ident) => {
                catch(move || {
                    if via == "do_reset" {
                        $Ty::do_reset($v)
                    } else {
                        let mut v = $v;
                        v.reset();
                        v
                    }
                })
            };
        }
        let r: Result<(), PanicKind> = match &mut slot.c {
            AnyC::T1(c) => tview_basic_mut!(1, c, &spec, v => body!(v, RecordTensor)),
            AnyC::T2(c) => tview_mut!(2, c, &spec, v => body!(v, RecordTensor)),
            AnyC::T3(c) => tview_basic_mut!(3, c, &spec, v => body!(v, RecordTensor)),
            AnyC::M(c) => mview_mut!(c, &spec, v => body!(v, RecordMatrix)),
        };
        if let Err(kind) = r {
            return panic_str(kind);
        }
        let new = self.shadow_view(&an, &offs).and_then(|recs| {
            catch(|| {
                recs.into_iter()
                    .map(|mut x| {
                        x.reset();
                        x
                    })
                    .collect::<Vec<Rc<T>>>()
            })
            .ok()
        });
        self.shadow_store(&an, &offs, new);
        self.answer(&an)
    }

    fn clear_line(&mut self, toks: &[&str]) -> String {
        let t: usize = opt_arg("t", toks).map(|s| s.parse().unwrap()).unwrap_or(0);
        if let Err(kind) = catch(|| self.tapes[t].get().clear()) {
            return panic_str(kind);
        }
        self.stapes[t].get().clear();
        "ok".into()
    }

    /// `d[x]` for every element `x` of the input operand, through the container API
    fn at_all(&self, d: &Derivatives<T>, name: &str, spec: &ViewSpec, via: &str) -> Result<Vec<T>, PanicKind> {
        let slot = &self.slots[name];
        macro_rules! tbody {
            ($v:ident) => {
                catch(|| {
                    if via == "for" {
                        let lens: Vec<usize> = $v.shape().iter().map(|x| x.1).collect();
                        all_indexes(&lens).iter().map(|i| d.at_tensor_index(to_array(i), &$v).expect("index in range")).collect::<Vec<T>>()
                    } else {
                        d.at_tensor(&$v).iter().collect::<Vec<T>>()
                    }
                })
            };
        }
        match &slot.c {
            AnyC::T1(c) => tview_basic!(1, c, spec, v => tbody!(v)),
            AnyC::T2(c) => tview!(2, c, spec, v => tbody!(v)),
            AnyC::T3(c) => tview_basic!(3, c, spec, v => tbody!(v)),
            AnyC::M(c) => mview!(c, spec, v => catch(|| {
                if via == "for" {
                    let (r, k) = v.size();
                    let mut out = vec![];
                    for i in 0..r {
                        for j in 0..k {
                            out.push(d.at_matrix_index(i, j, &v).expect("index in range"));
                        }
                    }
                    out
                } else {
                    d.at_matrix(&v).row_major_iter().collect::<Vec<T>>()
                }
            })),
        }
    }

    fn derivs_line(&mut self, toks: &[&str]) -> String {
        let via = opt_arg("via", toks).unwrap_or("all");
        let (on, ospec, _ovs, ooffs) = match self.operand(toks[1]) {
            Ok(x) => x,
            Err(e) => return e,
        };
        let mut wrt = vec![];
        for tok in split_comma(opt_arg("wrt", toks).unwrap_or("-")) {
            match self.operand(tok) {
                Ok(x) => wrt.push(x),
                Err(e) => return e,
            }
        }
        // one `Derivatives` per output element, in row-major order of the view
        let slot = &self.slots[&on];
        macro_rules! tbody {
            ($v:ident) => {
                catch(|| {
                    if via == "for" {
                        let lens: Vec<usize> = $v.shape().iter().map(|x| x.1).collect();
                        all_indexes(&lens).iter().map(|i| $v.derivatives_for(to_array(i))).collect::<Option<Vec<Derivatives<T>>>>()
                    } else {
                        $v.derivatives().map(|t| t.iter_reference().cloned().collect::<Vec<Derivatives<T>>>())
                    }
                })
            };
        }
        let ds: Result<Option<Vec<Derivatives<T>>>, PanicKind> = match &slot.c {
            AnyC::T1(c) => tview_basic!(1, c, &ospec, v => tbody!(v)),
            AnyC::T2(c) => tview!(2, c, &ospec, v => tbody!(v)),
            AnyC::T3(c) => tview_basic!(3, c, &ospec, v => tbody!(v)),
            AnyC::M(c) => mview!(c, &ospec, v => catch(|| {
                if via == "for" {
                    let (r, k) = v.size();
                    let mut out = vec![];
                    for i in 0..r {
                        for j in 0..k {
                            out.push(v.derivatives_for(i, j));
                        }
                    }
                    out.into_iter().collect::<Option<Vec<Derivatives<T>>>>()
                } else {
                    v.derivatives().map(|m| m.row_major_reference_iter().cloned().collect::<Vec<Derivatives<T>>>())
                }
            })),
        };
        let ds = match ds {
            Err(kind) => return panic_str(kind),
            Ok(None) => return "none".into(),
            Ok(Some(ds)) => ds,
        };
        let mut table: Vec<Vec<Vec<T>>> = vec![];
        for d in &ds {
            let mut per_out = vec![];
            for w in &wrt {
                match self.at_all(d, &w.0, &w.1, via) {
                    Ok(v) => per_out.push(v),
                    Err(kind) => return panic_str(kind),
                }
            }
            table.push(per_out);
        }
        // the same with the scalar mirror
        let scalar = (|| -> Option<Result<Vec<Vec<Vec<T>>>, PanicKind>> {
            let outs = self.shadow_view(&on, &ooffs)?;
            let mut ins = vec![];
            for w in &wrt {
                ins.push(self.shadow_view(&w.0, &w.3)?);
            }
            Some(catch(|| {
                outs.iter()
                    .map(|y| {
                        let d = y.derivatives();
                        ins.iter().map(|xs| xs.iter().map(|x| d[x].clone()).collect::<Vec<T>>()).collect::<Vec<Vec<T>>>()
                    })
                    .collect::<Vec<Vec<Vec<T>>>>()
            }))
        })();
        let show = |t: &Vec<Vec<Vec<T>>>| {
            t.iter().map(|per_out| per_out.iter().map(|l| show_list(l)).collect::<Vec<_>>().join(";")).collect::<Vec<_>>().join("|")
        };
        let verdict = match scalar {
            None => "skip".to_string(),
            Some(Ok(st)) => {
                if st == table {
                    "ok".to_string()
                } else {
                    format!("DIFF({})", show(&st))
                }
            }
            Some(Err(kind)) => format!("DIFF({})", panic_str(kind)),
        };
        format!("d={} scalar={}", show(&table), verdict)
    }

    pub fn step(&mut self, toks: &[&str]) -> String {
        match toks[0] {
            "vars" | "consts" if toks.len() >= 5 => self.create(toks),
            "clear" => self.clear_line(toks),
            "reset" if toks.len() >= 2 => self.reset_line(toks),
            "derivs" if toks.len() >= 2 => self.derivs_line(toks),
            "uassign" if toks.len() >= 2 => self.uassign_line(toks),
            "lassign" | "rassign" if toks.len() >= 3 => self.bassign_line(toks),
            "map" if toks.len() >= 3 => self.map_line(toks),
            "mapmut" if toks.len() >= 2 => self.mapmut_line(toks),
            "fromiter" if toks.len() >= 3 => self.fromiter_line(toks),
            "fromiters" if toks.len() >= 3 => self.fromiters_line(toks),
            "add" | "sub" | "emul" | "ediv" | "binary" | "matmul" if toks.len() >= 4 => self.binary_line(toks),
            "addn" | "subn" | "muln" | "divn" | "subsw" | "divsw" | "pown" | "npow" if toks.len() >= 4 => self.unary_line(toks),
            "neg" | "sin" | "cos" | "exp" | "ln" | "sqrt" | "unary" if toks.len() >= 3 => self.unary_line(toks),
            _ => "bad-op".into(),
        }
    }
}

// ---------------------------------------------------------------------------------------------
// the same operations on scalar records
// ---------------------------------------------------------------------------------------------

fn scalar_unary<T>(x: &Rc<T>, op: &str, k: Option<&T>, fns: Fns2<T>) -> Rc<T>
where
    T: Elt,
    for<'x> &'x T: NumericRef<T>,
{
    match op {
        "addn" => x + k.unwrap(),
        "subn" => x - k.unwrap(),
        "muln" => x * k.unwrap(),
        "divn" => x / k.unwrap(),
        "subsw" => x.sub_swapped(k.unwrap()),
        "divsw" => x.div_swapped(k.unwrap()),
        "neg" => -x,
        "unary" => {
            let (f, df) = fns.unwrap();
            x.unary(|v| f(v), |v| df(v))
        }
        _ => T::rec_real(x, op, k),
    }
}

fn scalar_binary<T>(x: &Rc<T>, y: &Rc<T>, op: &str, fns: Fns3<T>) -> Rc<T>
where
    T: Elt,
    for<'x> &'x T: NumericRef<T>,
{
    match op {
        "add" => x + y,
        "sub" => x - y,
        "emul" => x * y,
        "ediv" => x / y,
        "binary" => {
            let (f, dfx, dfy) = fns.unwrap();
            x.binary(y, |a, b| f(a, b), |a, b| dfx(a, b), |a, b| dfy(a, b))
        }
        other => panic!("harness: unknown binary op {}", other),
    }
}

/// `m × n` times `n × l` with scalar records: every cell is `zip.map(x * y).reduce(x + y)`
/// (what `scalar_product` of tensors/operations.rs does for `T = Record`), cells in row-major order
fn scalar_matmul<T>(a: &[Rc<T>], b: &[Rc<T>], m: usize, n: usize, l: usize) -> Vec<Rc<T>>
where
    T: Elt,
    for<'x> &'x T: NumericRef<T>,
{
    let mut out = vec![];
    for i in 0..m {
        for j in 0..l {
            let cell = (0..n).map(|k| &a[i * n + k] * &b[k * l + j]).reduce(|x, y| x + y).expect("non-empty");
            out.push(cell);
        }
    }
    out
}

// ---------------------------------------------------------------------------------------------
// runner
// ---------------------------------------------------------------------------------------------

enum Case {
    None,
    Fp(CaseG<Fp>),
    Rat(CaseG<Rat>),
}

pub struct Runner {
    case: Case,
}

impl Runner {
    pub fn new() -> Runner {
        Runner { case: Case::None }
    }

    pub fn step(&mut self, toks: &[&str]) -> String {
        if toks.is_empty() {
            return "bad-op".into();
        }
        if toks[0] == "@" {
            self.case = Case::None;
            let n: usize = toks.get(2).and_then(|s| s.parse().ok()).unwrap_or(1);
            self.case = match toks.get(3) {
                Some(&"rat") => Case::Rat(CaseG::<Rat>::new(n)),
                _ => Case::Fp(CaseG::<Fp>::new(n)),
            };
            return "ok".into();
        }
        match &mut self.case {
            Case::None => "bad-op".into(),
            Case::Fp(c) => c.step(toks),
            Case::Rat(c) => c.step(toks),
        }
    }
}
