// rule: a matrix cannot be mutated while one of its iterators is alive
// expect: fail E0502
use easy_ml::matrices::Matrix;
fn main() {
    let mut matrix = Matrix::from(vec![vec![1, 2], vec![3, 4]]);
    let mut iterator = matrix.row_major_reference_iter();
    matrix.set(0, 0, 5);
    println!("{:?}", iterator.next());
}
