// rule: the positive Send/Sync assertions the crate's own test-suite makes (five types), plus tensors, views and derivative sets
// expect: compile
use easy_ml::differentiation::{Derivatives, Trace, WengertList};
use easy_ml::matrices::views::MatrixView;
use easy_ml::matrices::{Matrix, ScalarConversionError};
use easy_ml::tensors::indexing::InvalidDimensionsError as IndexingInvalidDimensionsError;
use easy_ml::tensors::views::TensorView;
use easy_ml::tensors::{InvalidDimensionsError, InvalidShapeError, Tensor};
fn assert_send<T: Send>() {}
fn assert_sync<T: Sync>() {}
fn main() {
    assert_sync::<ScalarConversionError>();
    assert_send::<ScalarConversionError>();
    assert_sync::<Matrix<f64>>();
    assert_send::<Matrix<f64>>();
    assert_sync::<IndexingInvalidDimensionsError<3>>();
    assert_send::<IndexingInvalidDimensionsError<3>>();
    assert_sync::<InvalidShapeError<2>>();
    assert_sync::<InvalidDimensionsError<2, 2>>();
    assert_send::<InvalidShapeError<2>>();
    assert_send::<InvalidDimensionsError<2, 2>>();
    assert_sync::<Trace<f64>>();
    assert_send::<Trace<f64>>();
    assert_sync::<Tensor<f64, 3>>();
    assert_send::<Tensor<f64, 3>>();
    assert_sync::<TensorView<f64, Tensor<f64, 2>, 2>>();
    assert_send::<MatrixView<f64, Matrix<f64>>>();
    assert_sync::<Derivatives<f64>>();
    assert_send::<Derivatives<f64>>();
    // a tape may move (by value), it may not be shared
    assert_send::<WengertList<f64>>();
}
