// rule: Derivatives<T> owns its data: it may outlive the tape and cross threads
// expect: compile
use easy_ml::differentiation::{Record, WengertList, Derivatives};
fn main() {
    let derivatives: Derivatives<f64>;
    let index;
    {
        let list = WengertList::new();
        let x = Record::variable(2.0_f64, &list);
        index = x.index;
        derivatives = (x * x).derivatives();
    }
    let handle = std::thread::spawn(move || derivatives);
    let d = handle.join().unwrap();
    let _ = (index, d);
}
