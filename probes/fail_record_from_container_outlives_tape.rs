// rule: records taken out of a container keep the tape's lifetime
// expect: fail E0597
use easy_ml::differentiation::{RecordMatrix, WengertList};
use easy_ml::matrices::Matrix;
fn main() {
    let r;
    {
        let list = WengertList::new();
        let x = RecordMatrix::variables(&list, Matrix::from(vec![vec![1.0_f64, 2.0]]));
        r = x.get_as_record(0, 0);
    }
    println!("{}", r.number);
}
