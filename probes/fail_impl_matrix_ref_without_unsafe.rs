// rule: MatrixRef is an unsafe trait: implementing it requires `unsafe impl`
// expect: fail E0200
use easy_ml::matrices::views::{DataLayout, MatrixRef};
use easy_ml::matrices::{Column, Row};
struct Ones;
impl MatrixRef<f64> for Ones {
    fn try_get_reference(&self, row: Row, column: Column) -> Option<&f64> {
        if row < 2 && column < 2 { Some(&1.0) } else { None }
    }
    fn view_rows(&self) -> Row {
        2
    }
    fn view_columns(&self) -> Column {
        2
    }
    unsafe fn get_reference_unchecked(&self, _row: Row, _column: Column) -> &f64 {
        &1.0
    }
    fn data_layout(&self) -> DataLayout {
        DataLayout::Other
    }
}
fn main() {}
