// rule: a tape cannot be given away (moved into another owner) while records refer to it
// expect: fail E0505
use easy_ml::differentiation::{Record, WengertList};
fn consume(_list: WengertList<f64>) {}
fn main() {
    let list = WengertList::new();
    let x = Record::variable(1.0_f64, &list);
    let y = x * 2.0;
    consume(list);
    println!("{}", y.number);
}
