// rule: a record container (RecordTensor) cannot outlive its tape
// expect: fail E0597
use easy_ml::differentiation::{RecordTensor, WengertList};
use easy_ml::tensors::Tensor;
fn main() {
    let x;
    {
        let list = WengertList::new();
        x = RecordTensor::variables(&list, Tensor::from([("a", 2)], vec![1.0_f64, 2.0]));
    }
    println!("{}", x.elements());
}
