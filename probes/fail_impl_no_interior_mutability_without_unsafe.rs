// rule: NoInteriorMutability is an unsafe marker trait: implementing it requires `unsafe impl`
// expect: fail E0200
use easy_ml::matrices::views::NoInteriorMutability;
struct Mine;
impl NoInteriorMutability for Mine {}
fn main() {}
