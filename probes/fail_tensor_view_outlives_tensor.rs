// rule: a view cannot outlive the tensor it borrows
// expect: fail E0597
use easy_ml::tensors::views::TensorView;
use easy_ml::tensors::Tensor;
fn main() {
    let view;
    {
        let tensor = Tensor::from([("a", 3)], vec![1, 2, 3]);
        view = TensorView::from(&tensor);
    }
    println!("{}", view.iter().count());
}
