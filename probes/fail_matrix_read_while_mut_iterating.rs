// rule: a matrix cannot be read while a mutable iterator over it is alive
// expect: fail E0502
use easy_ml::matrices::Matrix;
fn main() {
    let mut matrix = Matrix::from(vec![vec![1, 2], vec![3, 4]]);
    let mut iterator = matrix.row_major_reference_mut_iter();
    let first = matrix.get(0, 0);
    *iterator.next().unwrap() = first;
}
