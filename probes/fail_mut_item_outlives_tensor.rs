// rule: items of a mutable iterator cannot outlive the tensor (the lifetime extension inside the iterator is not observable)
// expect: fail E0597
use easy_ml::tensors::Tensor;
fn main() {
    let item;
    {
        let mut tensor = Tensor::from([("a", 3)], vec![1, 2, 3]);
        item = tensor.iter_reference_mut().next().unwrap();
    }
    *item = 5;
}
