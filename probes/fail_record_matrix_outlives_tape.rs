// rule: a record container (RecordMatrix) cannot outlive its tape
// expect: fail E0597
use easy_ml::differentiation::{RecordMatrix, WengertList};
use easy_ml::matrices::Matrix;
fn main() {
    let x;
    {
        let list = WengertList::new();
        x = RecordMatrix::variables(&list, Matrix::from(vec![vec![1.0_f64, 2.0]]));
    }
    println!("{}", x.elements());
}
