// rule: even a constant record (no tape) is not sendable: the type decides, not the value
// expect: fail E0277
use easy_ml::differentiation::Record;
fn main() {
    let c: Record<'static, f64> = Record::constant(1.0);
    std::thread::spawn(move || {
        let moved = c;
        moved.number
    })
    .join()
    .unwrap();
}
