// rule: documented pattern for parallelism: each thread owns its own tape; only plain numbers cross threads
// expect: compile
use easy_ml::differentiation::{Record, WengertList};
fn main() {
    let inputs = vec![1.0_f64, 2.0, 3.0];
    let gradients: Vec<f64> = std::thread::scope(|s| {
        let handles: Vec<_> = inputs
            .iter()
            .map(|&v| {
                s.spawn(move || {
                    let list = WengertList::new();
                    let x = Record::variable(v, &list);
                    let y = x * x;
                    y.derivatives()[&x]
                })
            })
            .collect();
        handles.into_iter().map(|h| h.join().unwrap()).collect()
    });
    assert_eq!(gradients, vec![2.0, 4.0, 6.0]);
}
