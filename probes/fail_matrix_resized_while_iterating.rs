// rule: a matrix cannot be resized while one of its (value) iterators is alive
// expect: fail E0502
use easy_ml::matrices::Matrix;
fn main() {
    let mut matrix = Matrix::from(vec![vec![1, 2], vec![3, 4]]);
    let mut iterator = matrix.column_iter(0);
    matrix.remove_row(0);
    println!("{:?}", iterator.next());
}
