// rule: a record container (RecordMatrix) cannot be shared with another thread
// expect: fail E0277
use easy_ml::differentiation::{RecordMatrix, WengertList};
use easy_ml::matrices::Matrix;
fn main() {
    let list = WengertList::new();
    let x = RecordMatrix::variables(&list, Matrix::from(vec![vec![1.0_f64, 2.0]]));
    std::thread::scope(|s| {
        s.spawn(|| x.elements());
    });
}
