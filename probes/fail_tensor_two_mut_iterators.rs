// rule: two mutable iterators over one tensor cannot coexist
// expect: fail E0499
use easy_ml::tensors::Tensor;
fn main() {
    let mut tensor = Tensor::from([("a", 3)], vec![1, 2, 3]);
    let mut first = tensor.iter_reference_mut();
    let mut second = tensor.iter_reference_mut();
    std::mem::swap(first.next().unwrap(), second.next().unwrap());
}
