// rule: MatrixMut is an unsafe trait: implementing it requires `unsafe impl`
// expect: fail E0200
use easy_ml::matrices::views::{DataLayout, MatrixMut, MatrixRef};
use easy_ml::matrices::{Column, Row};
struct Cells([f64; 4]);
unsafe impl MatrixRef<f64> for Cells {
    fn try_get_reference(&self, row: Row, column: Column) -> Option<&f64> {
        if row < 2 && column < 2 { self.0.get(row * 2 + column) } else { None }
    }
    fn view_rows(&self) -> Row {
        2
    }
    fn view_columns(&self) -> Column {
        2
    }
    unsafe fn get_reference_unchecked(&self, row: Row, column: Column) -> &f64 {
        &self.0[row * 2 + column]
    }
    fn data_layout(&self) -> DataLayout {
        DataLayout::RowMajor
    }
}
impl MatrixMut<f64> for Cells {
    fn try_get_reference_mut(&mut self, row: Row, column: Column) -> Option<&mut f64> {
        if row < 2 && column < 2 { self.0.get_mut(row * 2 + column) } else { None }
    }
    unsafe fn get_reference_unchecked_mut(&mut self, row: Row, column: Column) -> &mut f64 {
        &mut self.0[row * 2 + column]
    }
}
fn main() {}
