// rule: TensorMut is an unsafe trait: implementing it requires `unsafe impl`
// expect: fail E0200
use easy_ml::tensors::views::{DataLayout, TensorMut, TensorRef};
use easy_ml::tensors::Dimension;
struct Cells([f64; 3]);
unsafe impl TensorRef<f64, 1> for Cells {
    fn get_reference(&self, indexes: [usize; 1]) -> Option<&f64> {
        self.0.get(indexes[0])
    }
    fn view_shape(&self) -> [(Dimension, usize); 1] {
        [("x", 3)]
    }
    unsafe fn get_reference_unchecked(&self, indexes: [usize; 1]) -> &f64 {
        &self.0[indexes[0]]
    }
    fn data_layout(&self) -> DataLayout<1> {
        DataLayout::Other
    }
}
impl TensorMut<f64, 1> for Cells {
    fn get_reference_mut(&mut self, indexes: [usize; 1]) -> Option<&mut f64> {
        self.0.get_mut(indexes[0])
    }
    unsafe fn get_reference_unchecked_mut(&mut self, indexes: [usize; 1]) -> &mut f64 {
        &mut self.0[indexes[0]]
    }
}
fn main() {}
