// rule: a matrix cannot be touched while its mutable partitions are alive
// expect: fail E0499
use easy_ml::matrices::Matrix;
fn main() {
    let mut matrix = Matrix::from(vec![vec![1, 2], vec![3, 4]]);
    let mut parts = matrix.partition_quadrants(1, 1);
    let mut again = matrix.partition_quadrants(1, 1);
    parts.top_left.set(0, 0, again.top_left.get(0, 0));
    again.top_left.set(0, 0, 1);
}
