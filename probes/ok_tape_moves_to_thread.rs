// rule: a tape (by value, not through a shared reference) may move to another thread and be used there
// expect: compile
use easy_ml::differentiation::{Record, WengertList};
fn main() {
    let list: WengertList<f64> = WengertList::new();
    std::thread::spawn(move || {
        let x = Record::variable(1.0, &list);
        let y = x * x;
        y.number
    })
    .join()
    .unwrap();
}
