// rule: a tensor cannot be mutated while one of its iterators is alive
// expect: fail E0502
use easy_ml::tensors::Tensor;
fn main() {
    let mut tensor = Tensor::from([("a", 3)], vec![1, 2, 3]);
    let mut iterator = tensor.iter_reference();
    tensor.map_mut(|x| x + 1);
    println!("{:?}", iterator.next());
}
