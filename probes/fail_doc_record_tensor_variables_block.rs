// rule: the crate's own `compile_fail` doc example of RecordTensor::variables (container_record/mod.rs)
// expect: fail E0597
use easy_ml::differentiation::RecordTensor;
use easy_ml::differentiation::WengertList;
use easy_ml::tensors::Tensor;
fn main() {
    let record = {
        let list = WengertList::new();
        RecordTensor::variables(&list, Tensor::from([("r", 2), ("c", 2)], vec![1.0, 2.0, 3.0, 4.0]))
    }; // list no longer in scope
    let _ = record;
}
