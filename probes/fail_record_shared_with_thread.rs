// rule: a record cannot be shared with another thread
// expect: fail E0277
use easy_ml::differentiation::{Record, WengertList};
fn main() {
    let list = WengertList::new();
    let x = Record::variable(1.0_f64, &list);
    std::thread::scope(|s| {
        s.spawn(|| (&x).number);
    });
}
