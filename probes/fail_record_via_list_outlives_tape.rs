// rule: a record made with WengertList::variable cannot outlive the tape either
// expect: fail E0597
use easy_ml::differentiation::WengertList;
fn main() {
    let x;
    {
        let list = WengertList::new();
        x = list.variable(1.0_f64);
    }
    println!("{}", x.number);
}
