// rule: the sealed similarity trait cannot be implemented by a client at all, also not for a
//       library type against a client right hand side (the orphan rule allows this impl, only
//       the seal can reject it)
// expect: fail E0277
use easy_ml::tensors::operations::Similar;
use easy_ml::tensors::Tensor;
struct Mine;
impl Similar<Mine> for Tensor<i32, 1> {
    fn similar(&self, _other: &Mine) -> bool {
        true
    }
}
fn main() {
    let t = Tensor::from([("a", 1)], vec![1]);
    assert!(t.similar(&Mine));
}
