// rule: an item of a mutable matrix iterator keeps the matrix mutably borrowed after the iterator is gone
// expect: fail E0502
use easy_ml::matrices::Matrix;
fn main() {
    let mut matrix = Matrix::from(vec![vec![1, 2], vec![3, 4]]);
    let item = matrix.row_major_reference_mut_iter().next().unwrap();
    let copy = matrix.get(0, 0);
    *item = copy;
}
