// rule: the crate's own `compile_fail` doc example of RecordMatrix::variables (container_record/mod.rs)
// expect: fail E0597
use easy_ml::differentiation::RecordMatrix;
use easy_ml::differentiation::WengertList;
use easy_ml::matrices::Matrix;
fn main() {
    let record = {
        let list = WengertList::new();
        RecordMatrix::variables(&list, Matrix::from(vec![vec![1.0, 2.0], vec![3.0, 4.0]]))
    }; // list no longer in scope
    let _ = record;
}
