// rule: results of record arithmetic carry the tape's lifetime too
// expect: fail E0597
use easy_ml::differentiation::{Record, WengertList};
fn main() {
    let z;
    {
        let list = WengertList::new();
        let x = Record::variable(1.0_f64, &list);
        z = x * 2.0 + Record::constant(1.0);
    }
    println!("{}", z.number);
}
