// rule: the sealed similarity trait cannot be implemented for a client type
// expect: fail E0277
use easy_ml::tensors::operations::Similar;
struct Mine;
impl Similar for Mine {
    fn similar(&self, _other: &Mine) -> bool {
        true
    }
}
fn main() {}
