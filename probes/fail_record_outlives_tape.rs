// rule: a record cannot outlive the tape it was created on
// expect: fail E0597
use easy_ml::differentiation::{Record, WengertList};
fn main() {
    let x;
    {
        let list = WengertList::new();
        x = Record::variable(1.0_f64, &list);
    }
    println!("{}", x.number);
}
