// rule: a tape cannot be shared with another thread through a shared reference
// expect: fail E0277
use easy_ml::differentiation::{Record, WengertList};
fn main() {
    let list: WengertList<f64> = WengertList::new();
    std::thread::scope(|s| {
        s.spawn(|| Record::variable(1.0, &list).number);
        s.spawn(|| Record::variable(2.0, &list).number);
    });
}
