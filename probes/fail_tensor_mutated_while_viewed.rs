// rule: a tensor cannot be mutated while a view of it is alive
// expect: fail E0502
use easy_ml::tensors::views::{TensorRange, TensorView};
use easy_ml::tensors::Tensor;
fn main() {
    let mut tensor = Tensor::from([("a", 3)], vec![1, 2, 3]);
    let view = TensorView::from(TensorRange::from(&tensor, [("a", 0..2)]).unwrap());
    tensor.map_mut(|x| x + 1);
    println!("{}", view.iter().count());
}
