// rule: a record cannot be sent to another thread
// expect: fail E0277
use easy_ml::differentiation::{Record, WengertList};
fn main() {
    let list = WengertList::new();
    let x = Record::variable(1.0_f64, &list);
    std::thread::scope(|s| {
        s.spawn(move || {
            // the whole record moves into the closure (edition 2021 would otherwise capture only the field)
            let moved = x;
            moved.number
        });
    });
}
