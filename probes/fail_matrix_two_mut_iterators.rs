// rule: two mutable iterators over one matrix cannot coexist
// expect: fail E0499
use easy_ml::matrices::Matrix;
fn main() {
    let mut matrix = Matrix::from(vec![vec![1, 2], vec![3, 4]]);
    let mut first = matrix.row_major_reference_mut_iter();
    let mut second = matrix.column_major_reference_mut_iter();
    let (a, b) = (first.next().unwrap(), second.next().unwrap());
    *a += *b;
}
