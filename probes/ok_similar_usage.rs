// rule: documented valid usage of the sealed similarity trait (calling it, bounding by it)
// expect: compile
use easy_ml::tensors::operations::Similar;
use easy_ml::tensors::views::TensorView;
use easy_ml::tensors::Tensor;
fn same<A: Similar<B>, B>(a: &A, b: &B) -> bool {
    a.similar(b)
}
fn main() {
    let one = Tensor::from([("a", 2)], vec![1, 2]);
    let two = TensorView::from(Tensor::from([("a", 2)], vec![1, 2]));
    assert!(one.similar(&one) && same(&one, &two) && same(&two, &one) && same(&two, &two));
}
