// rule: RecordTensor is not Send
// expect: fail E0277
use easy_ml::differentiation::RecordTensor;
use easy_ml::tensors::Tensor;
fn assert_send<T: Send>() {}
fn main() {
    assert_send::<RecordTensor<'static, f64, Tensor<(f64, usize), 2>, 2>>();
}
