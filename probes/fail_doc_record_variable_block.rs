// rule: the crate's own `compile_fail` doc example of Record::variable (src/differentiation.rs): the record cannot leave the block of its tape
// expect: fail E0597
use easy_ml::differentiation::Record;
use easy_ml::differentiation::WengertList;
fn main() {
    let record = {
        let list = WengertList::new();
        Record::variable(1.0, &list)
    }; // list no longer in scope
    let _ = record;
}
