// rule: WengertList is not Sync
// expect: fail E0277
use easy_ml::differentiation::WengertList;
fn assert_sync<T: Sync>() {}
fn main() {
    assert_sync::<WengertList<f64>>();
}
