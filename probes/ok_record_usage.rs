// rule: documented valid usage of the tape: variables, arithmetic, derivatives, constants
// expect: compile
use easy_ml::differentiation::{Record, WengertList};
fn main() {
    let list = WengertList::new();
    let x = Record::variable(2.0_f64, &list);
    let y = list.variable(3.0);
    let c = Record::constant(4.0);
    let z = x * y + &x / c - 1.0;
    let derivatives = z.derivatives();
    let _ = (derivatives[&x], derivatives.at(&y));
    list.clear();
}
