// rule: the seal itself is private: a client cannot name (and so cannot implement) the marker trait
// expect: fail E0603
use easy_ml::tensors::operations::Similar;
struct Mine;
impl easy_ml::tensors::operations::private::Sealed for Mine {}
impl Similar for Mine {
    fn similar(&self, _other: &Mine) -> bool {
        true
    }
}
fn main() {}
