// rule: tensors, matrices, views, traces are sendable and shareable when their elements are
// expect: compile
use easy_ml::differentiation::Trace;
use easy_ml::matrices::Matrix;
use easy_ml::tensors::views::TensorView;
use easy_ml::tensors::Tensor;
fn main() {
    let tensor = Tensor::from([("a", 2)], vec![1.0_f64, 2.0]);
    let matrix = Matrix::from(vec![vec![1.0_f64, 2.0]]);
    let trace = Trace::variable(1.0_f64);
    std::thread::scope(|s| {
        s.spawn(|| tensor.iter_reference().count());
        s.spawn(|| matrix.row_major_reference_iter().count());
        s.spawn(|| TensorView::from(&tensor).iter().count());
        s.spawn(|| trace.number);
    });
    let view = TensorView::from(tensor);
    std::thread::spawn(move || (view, matrix, trace)).join().unwrap();
}
