// rule: the reference traits can be implemented by clients, with `unsafe impl`
// expect: compile
use easy_ml::tensors::views::{DataLayout, TensorRef, TensorView};
use easy_ml::tensors::Dimension;
struct Ones;
unsafe impl TensorRef<f64, 1> for Ones {
    fn get_reference(&self, indexes: [usize; 1]) -> Option<&f64> {
        if indexes[0] < 3 { Some(&1.0) } else { None }
    }
    fn view_shape(&self) -> [(Dimension, usize); 1] {
        [("x", 3)]
    }
    unsafe fn get_reference_unchecked(&self, _indexes: [usize; 1]) -> &f64 {
        &1.0
    }
    fn data_layout(&self) -> DataLayout<1> {
        DataLayout::Other
    }
}
fn main() {
    assert_eq!(TensorView::from(Ones).iter().count(), 3);
}
