// rule: an iterator cannot outlive the matrix it iterates
// expect: fail E0597
use easy_ml::matrices::Matrix;
fn main() {
    let mut iterator;
    {
        let matrix = Matrix::from(vec![vec![1, 2], vec![3, 4]]);
        iterator = matrix.row_major_reference_iter();
    }
    println!("{:?}", iterator.next());
}
