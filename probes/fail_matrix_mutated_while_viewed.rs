// rule: a matrix cannot be mutated while a view of it is alive
// expect: fail E0502
use easy_ml::matrices::views::{MatrixRange, MatrixView};
use easy_ml::matrices::Matrix;
fn main() {
    let mut matrix = Matrix::from(vec![vec![1, 2], vec![3, 4]]);
    let view = MatrixView::from(MatrixRange::from(&matrix, 0..1, 0..2));
    matrix.set(0, 0, 9);
    println!("{}", view.get(0, 0));
}
