// rule: a record container (RecordTensor) cannot be sent to another thread
// expect: fail E0277
use easy_ml::differentiation::{RecordTensor, WengertList};
use easy_ml::tensors::Tensor;
fn main() {
    let list = WengertList::new();
    let x = RecordTensor::variables(&list, Tensor::from([("a", 2)], vec![1.0_f64, 2.0]));
    std::thread::scope(|s| {
        s.spawn(move || {
            let moved = x;
            moved.elements()
        });
    });
}
