// rule: the tape cannot be moved / dropped while a record refers to it
// expect: fail E0505
use easy_ml::differentiation::{Record, WengertList};
fn main() {
    let list = WengertList::new();
    let x = Record::variable(1.0_f64, &list);
    drop(list);
    println!("{}", x.number);
}
