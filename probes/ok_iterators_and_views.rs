// rule: documented valid usage: an iterator / view borrows its container; afterwards the container is usable again
// expect: compile
use easy_ml::matrices::Matrix;
use easy_ml::matrices::views::{MatrixRange, MatrixView};
use easy_ml::tensors::views::{TensorRange, TensorView};
use easy_ml::tensors::Tensor;
fn main() {
    let mut tensor = Tensor::from([("a", 2), ("b", 2)], vec![1, 2, 3, 4]);
    for x in tensor.iter_reference_mut() {
        *x += 1;
    }
    {
        let view = TensorView::from(TensorRange::from(&tensor, [("a", 0..1)]).unwrap());
        assert_eq!(view.iter().count(), 2);
    }
    tensor.map_mut(|x| x * 2);
    let mut matrix = Matrix::from(vec![vec![1, 2], vec![3, 4]]);
    for x in matrix.row_major_reference_mut_iter() {
        *x += 1;
    }
    {
        let view = MatrixView::from(MatrixRange::from(&matrix, 0..1, 0..2));
        assert_eq!(view.row_major_iter().count(), 2);
    }
    matrix.set(0, 0, 7);
    let (left, right) = {
        let parts = matrix.partition_quadrants(1, 1);
        (parts.top_left.get(0, 0), parts.top_right.get(0, 0))
    };
    matrix.set(0, 0, left + right);
}
