// rule: an item of a mutable iterator keeps the tensor mutably borrowed after the iterator is gone
// expect: fail E0502
use easy_ml::tensors::Tensor;
fn main() {
    let mut tensor = Tensor::from([("a", 3)], vec![1, 2, 3]);
    let item = tensor.iter_reference_mut().next().unwrap();
    let copy = tensor.first();
    *item = copy;
}
