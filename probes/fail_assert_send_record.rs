// rule: Record is not Send
// expect: fail E0277
use easy_ml::differentiation::Record;
fn assert_send<T: Send>() {}
fn main() {
    assert_send::<Record<'static, f64>>();
}
