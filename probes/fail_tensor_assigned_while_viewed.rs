// rule: a tensor cannot be replaced while a (mutable) view of it is alive
// expect: fail E0506
use easy_ml::tensors::views::TensorView;
use easy_ml::tensors::Tensor;
fn main() {
    let mut tensor = Tensor::from([("a", 3)], vec![1, 2, 3]);
    let mut view = TensorView::from(&mut tensor);
    tensor = Tensor::from([("a", 1)], vec![1]);
    view.map_mut(|x| x + 1);
}
