"""C11 extra step: the scan-generated API-surface table.

Scans the checkout under test for every `pub fn` of src/matrices/mod.rs and src/matrices/slices.rs
and every trait impl that involves `Matrix` under src/matrices/, and compares the result with
props/c11_api_surface.json:
  * "driven":  item -> regular expression that must match at least one operation line of a case
               tagged `tag=api` (non-square matrices, indexes >= 1, after a history);
  * "outside": item -> the property that owns it / why it is not C11's.
A public item found by the scan that the table does not list is reported as
`VIOLATION … no-failing-input-found` (the surface grew and nothing drives the new item); so is a
"driven" item whose pattern matches no generated line.
"""
import json
import os
import re


def _norm_impl(header):
    h = re.sub(r"^(unsafe\s+)?impl\s*", "", header.strip())
    # drop the impl's own generic parameter list
    if h.startswith("<"):
        depth = 0
        for i, ch in enumerate(h):
            if ch == "<":
                depth += 1
            elif ch == ">":
                depth -= 1
                if depth == 0:
                    h = h[i + 1:]
                    break
    h = re.sub(r"\s+where.*$", "", h)
    h = h.split("{")[0]
    h = re.sub(r"\s+", " ", h).strip()
    h = h.replace("crate::tensors::", "").replace("std::fmt::", "")
    return h


def scan(repo):
    items = set()
    base = os.path.join(repo, "src", "matrices")
    # pub fns of mod.rs and slices.rs, by owner
    for fn, default_owner in (("mod.rs", "Matrix"), ("slices.rs", "slices")):
        owner = default_owner
        depth_owner = None
        for line in open(os.path.join(base, fn), encoding="utf-8"):
            m = re.match(r"^\s*(unsafe\s+)?impl\b(.*)$", line)
            if m and not line.lstrip().startswith("//") and not line.lstrip().startswith("*"):
                header = _norm_impl(line)
                if " for " in header:
                    items.add("impl " + header)
                    owner = None
                else:
                    owner = re.sub(r"<.*$", "", header).strip()
                continue
            m = re.match(r"^(\s*)pub fn (\w+)", line)
            if m:
                if len(m.group(1)) == 0:
                    items.add(f"{default_owner}::{m.group(2)}" if fn == "slices.rs" else f"{m.group(2)}")
                elif owner:
                    items.add(f"{owner}::{m.group(2)}")
    # trait impls involving Matrix anywhere under src/matrices
    for dirpath, _dirs, files in os.walk(base):
        for f in files:
            if not f.endswith(".rs"):
                continue
            for line in open(os.path.join(dirpath, f), encoding="utf-8"):
                s = line.strip()
                if not re.match(r"^(unsafe\s+)?impl\b", s) or " for " not in s:
                    continue
                header = _norm_impl(s)
                target = header.split(" for ", 1)[1]
                trait = header.split(" for ", 1)[0]
                if re.search(r"\bMatrix<", target) or re.search(r"\bMatrix<", trait) or \
                        re.search(r"Box<dyn Matrix(Ref|Mut)", target):
                    header = header.replace("$op", "<arithmetic op>")
                    items.add("impl " + header)
    return sorted(items)


def run(ctx):
    root = ctx["root"]
    table = json.load(open(os.path.join(root, "props", "c11_api_surface.json")))
    driven, outside = table["driven"], table["outside"]
    found = scan(ctx["repo"])
    ops = ctx["corr"]["ops_list"] if ctx.get("corr") else []
    tagged, inside = [], False
    for l in ops:
        if l.startswith("@"):
            inside = "tag=api" in l
        if inside:
            tagged.append(l)
    violations = []
    unlisted = [i for i in found if i not in driven and i not in outside]
    for i in unlisted:
        violations.append({"case": f"api-surface: public item not in props/c11_api_surface.json: {i}",
                           "no_failing_input": True, "kind": "api-surface",
                           "explanation": "The scan of src/matrices found a public method / trait impl that the "
                                          "C11 surface table neither drives nor assigns to another property."})
    undriven = []
    counts = {}
    for item, pattern in driven.items():
        rx = re.compile(pattern)
        n = sum(1 for l in tagged if rx.search(l))
        counts[item] = n
        if n == 0:
            undriven.append(item)
            violations.append({"case": f"api-surface: no tagged line drives {item} (pattern {pattern})",
                               "no_failing_input": True, "kind": "api-surface"})
    stale = [i for i in list(driven) + list(outside) if i not in found]
    cov = {"api_surface": {"scanned_items": len(found), "driven": len(driven), "outside_c11": len(outside),
                           "unlisted": unlisted, "driven_without_line": undriven, "stale_table_entries": stale,
                           "tagged_lines": len(tagged),
                           "outside_items": {k: outside[k] for k in sorted(outside)},
                           "lines_per_driven_item_min": min(counts.values()) if counts else 0}}
    return {"violations": violations, "coverage": cov, "samples": []}
