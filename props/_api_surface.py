#!/usr/bin/env python3
"""API-surface table of the scalar differentiation module (Record, Trace, WengertList, Derivatives).

The five source files are scanned for every `pub fn`, every `impl … for …`, every macro invocation
that generates impls, every `#[derive(…)]` on a type and every public trait / type alias.  Each item
found must be listed in `props/api_surface_differentiation.json` with

    "owner"  the check that drives it (C04 | C05 | C15 | C06) or `internal` / `outside`,
    "stats"  regular expressions over the `#stat` counter names of that check's generator: each
             must match a counter with a non-zero count in the current run (that is how "driven at
             least once" is decided — the counters are incremented where the line is emitted),
    "note"   what drives it, or why it is outside.

`run(ctx, pid)` (called from props/c04_extra.py, c05_extra.py, c15_extra.py):
  * an item in the source that is not in the table  -> VIOLATION … no-failing-input-found
    (a new public function / impl that nothing drives) — reported by C04 only;
  * an item owned by `pid` whose counters are all zero -> VIOLATION … no-failing-input-found
    (the workload no longer drives it);
  * table entries that no longer exist in the source are listed in the coverage (not an error).
"""
import json
import os
import re

FILES = [
    "src/differentiation.rs",
    "src/differentiation/record_operations.rs",
    "src/differentiation/trace_operations.rs",
    "src/differentiation/operations.rs",
    "src/differentiation/functions.rs",
]
TABLE = os.path.join(os.path.dirname(os.path.abspath(__file__)), "api_surface_differentiation.json")


def strip_comments(text):
    text = re.sub(r"/\*.*?\*/", lambda m: "\n" * m.group(0).count("\n"), text, flags=re.S)
    return re.sub(r"//[^\n]*", "", text)


def drop_generics(s):
    """remove a leading balanced <...> group"""
    s = s.lstrip()
    if not s.startswith("<"):
        return s
    depth = 0
    for i, ch in enumerate(s):
        if ch == "<":
            depth += 1
        elif ch == ">":
            depth -= 1
            if depth == 0:
                return s[i + 1:]
    return s


def norm_type(s):
    s = re.sub(r"'\w+\s*,\s*", "", s)      # lifetimes inside generic lists
    s = re.sub(r"&'\w+\s+", "&", s)         # &'a T
    s = re.sub(r"<'\w+>", "", s)
    s = re.sub(r"\s+", " ", s).strip()
    s = s.replace("< ", "<").replace(" >", ">")
    return s


def scan_file(path, rel):
    text = strip_comments(open(path, encoding="utf-8").read())
    lines = text.split("\n")
    items = []
    cur_impl = None        # type of the current inherent impl block
    in_macro = 0           # brace depth inside macro_rules!
    i = 0
    n = len(lines)
    while i < n:
        line = lines[i]
        stripped = line.strip()
        # macro definitions: templates, skipped (their invocations are the items)
        if stripped.startswith("macro_rules!"):
            depth = 0
            started = False
            while i < n:
                depth += lines[i].count("{") - lines[i].count("}")
                if "{" in lines[i]:
                    started = True
                i += 1
                if started and depth <= 0:
                    break
            continue
        m = re.match(r"^(\w+)!\(impl (\w+) for (\w+)", line)
        if m:
            items.append(f"macro {m.group(1)}!(impl {m.group(2)} for {m.group(3)})")
            i += 1
            continue
        m = re.match(r"^(\w+)!\((\w+)\);", line)
        if m:
            items.append(f"macro {m.group(1)}!({m.group(2)})")
            i += 1
            continue
        if re.match(r"^\s*#\[derive\(", line) or re.match(r"^\s*#\[cfg_attr\(.*derive\(", line):
            derives = re.findall(r"derive\(([^)]*)\)", line)
            # the type follows within the next few lines
            j = i + 1
            while j < n and not re.search(r"\b(struct|enum)\s+(\w+)", lines[j]):
                j += 1
                if j - i > 6:
                    break
            tm = re.search(r"\b(struct|enum)\s+(\w+)", lines[j]) if j < n else None
            if tm:
                cond = "cfg(serde) " if "cfg_attr" in line else ""
                for d in derives:
                    for name in [x.strip() for x in d.split(",") if x.strip()]:
                        items.append(f"{cond}derive {name} for {tm.group(2)}")
            i += 1
            continue
        if re.match(r"^(unsafe )?impl\b", line):
            header = line
            j = i
            while "{" not in header and j + 1 < n:
                j += 1
                header += " " + lines[j].strip()
            header = header.split("{")[0]
            header = re.sub(r"\bwhere\b.*", "", header)
            body = drop_generics(re.sub(r"^(unsafe )?impl", "", header))
            body = norm_type(body)
            if " for " in body:
                tr, ty = body.split(" for ", 1)
                items.append(f"impl {tr.strip()} for {ty.strip()}")
                cur_impl = None
            else:
                cur_impl = re.match(r"(\w+)", body).group(1) if re.match(r"(\w+)", body) else body
            i = j + 1
            continue
        m = re.match(r"^(\s*)(pub(\([a-z]+\))?\s+)?fn\s+(\w+)", line)
        if m:
            indent, vis, _, name = m.groups()
            vis = (vis or "").strip()
            if len(indent) == 0:
                items.append(f"{vis or 'private'} fn {name}")
            elif len(indent) == 4 and cur_impl and vis:
                items.append(f"{vis} fn {cur_impl}::{name}")
            i += 1
            continue
        m = re.match(r"^pub trait (\w+)", line)
        if m:
            items.append(f"pub trait {m.group(1)}")
        m = re.match(r"^pub type (\w+)", line)
        if m:
            items.append(f"pub type {m.group(1)}")
        m = re.match(r"^pub struct (\w+)", line)
        if m:
            items.append(f"pub struct {m.group(1)}")
        i += 1
    return [f"{rel}: {x}" for x in items]


def scan(repo):
    out = []
    for rel in FILES:
        p = os.path.join(repo, rel)
        if os.path.exists(p):
            out += scan_file(p, os.path.basename(rel))
    # duplicates (the same impl header twice) keep a counter suffix
    seen = {}
    res = []
    for x in out:
        seen[x] = seen.get(x, 0) + 1
        res.append(x if seen[x] == 1 else f"{x} #{seen[x]}")
    return res


def run(ctx, pid):
    table = json.load(open(TABLE))
    found = scan(ctx["repo"])
    stats = (ctx.get("corr") or {}).get("stats", {})
    violations = []
    unlisted = [x for x in found if x not in table]
    gone = [x for x in table if x not in found]
    undriven = []
    for key, ent in table.items():
        if ent.get("owner") != pid or key not in found:
            continue
        for rx in ent.get("stats", []):
            if not any(re.search(rx, k) and v > 0 for k, v in stats.items()):
                undriven.append((key, rx))
    if pid == "C04":
        for x in unlisted:
            violations.append({
                "kind": "api-surface", "case": "api-surface unlisted " + x, "no_failing_input": True,
                "broken": f"public API item not in props/api_surface_differentiation.json: {x}",
                "explanation": "A function / trait impl / derive appeared in the differentiation module that "
                               "no check drives and the table does not list; nothing is known about its "
                               "behaviour.  Add it to the table with the check that drives it."})
    for key, rx in undriven:
        violations.append({
            "kind": "api-surface", "case": "api-surface undriven " + key, "no_failing_input": True,
            "broken": f"{key}: no #stat counter matching /{rx}/ is non-zero in this run of {pid}",
            "explanation": "The table says this API item is driven by this check, but the generated "
                           "workload did not exercise it."})
    owners = {}
    for key, ent in table.items():
        owners[ent.get("owner", "?")] = owners.get(ent.get("owner", "?"), 0) + 1
    ctx["log"](f"[{pid}] api surface: {len(found)} items scanned, {len(unlisted)} unlisted, "
               f"{len(undriven)} undriven for {pid}, {len(gone)} table entries not in the source")
    return {"violations": violations,
            "coverage": {"api_surface_items": len(found), "api_surface_by_owner": owners,
                         "api_surface_unlisted": unlisted, "api_surface_not_in_source": gone,
                         "api_surface_outside": sorted(k for k, e in table.items()
                                                       if e.get("owner") in ("outside", "internal"))},
            "samples": []}


if __name__ == "__main__":
    import sys
    for x in scan(sys.argv[1] if len(sys.argv) > 1 else "/repo"):
        print(x)
