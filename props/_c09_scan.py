import re, json, sys
def strip_comments(t):
    t=re.sub(r'/\*.*?\*/','',t,flags=re.S)
    return re.sub(r'//[^\n]*','',t)
def simplify(ty):
    """drop lifetimes, single-letter generics and bounds; keep type constructors"""
    ty=ty.strip()
    # parse generic groups recursively
    def parse(s,i=0):
        out='';
        while i<len(s):
            c=s[i]
            if c=='<':
                inner,i=parse(s,i+1)
                items=[x.strip() for x in split_top(inner)]
                keep=[x for x in items if x and not re.fullmatch(r"'\w+|[A-Z]\d?|\(?[A-Z], ?Index\)?|usize|\{?[A-Z]\}?", x)]
                if keep: out+='<'+', '.join(keep)+'>'
            elif c=='>':
                return out,i+1
            else:
                out+=c; i+=1
        return out,i
    def split_top(s):
        parts=[];d=0;cur=''
        for c in s:
            if c in '<([': d+=1
            if c in '>)]': d-=1
            if c==',' and d==0: parts.append(cur);cur=''
            else: cur+=c
        parts.append(cur); return parts
    r,_=parse(ty)
    r=re.sub(r"&'\w+ (mut )?",'&',r)
    return re.sub(r'\s+',' ',r).strip()
def scan(path):
    t=strip_comments(open(path).read())
    keys=[]
    # impl headers
    for m in re.finditer(r'(?m)^(unsafe )?impl\b', t):
        j=t.index('{',m.start())
        hdr=t[m.end():j]
        hdr=re.split(r'\bwhere\b',hdr)[0]
        hdr=hdr.strip()
        # drop leading generic parameter list
        if hdr.startswith('<'):
            d=0
            for k,c in enumerate(hdr):
                if c=='<': d+=1
                if c=='>':
                    d-=1
                    if d==0: hdr=hdr[k+1:].strip(); break
        hdr=' '.join(hdr.split())
        if ' for ' in hdr:
            tr,ty=hdr.split(' for ',1)
            key=f"impl {simplify(tr)} for {simplify(ty)}"
            kind='trait'
        else:
            key=f"impl {simplify(hdr)}"; kind='inherent'
        # body span
        d=0;e=j
        while True:
            c=t[e]
            if c=='{': d+=1
            elif c=='}':
                d-=1
                if d==0: break
            e+=1
        body=t[j:e]
        fns=re.findall(r'\bpub (?:unsafe )?fn (\w+)',body) if kind=='inherent' else []
        if kind=='trait':
            keys.append(key)
        else:
            tyname=key[5:]
            for f in fns: keys.append(f"{tyname}::{f}")
    for m in re.finditer(r'#\[derive\(([^)]*)\)\]\s*(?:#\[[^\]]*\]\s*)*pub (?:struct|enum) (\w+)', t):
        for tr in m.group(1).split(','):
            keys.append(f"derive {tr.strip()} for {m.group(2)}")
    for m in re.finditer(r'(?m)^pub (?:\(crate\) )?fn (\w+)',t):
        keys.append(f"fn {m.group(1)}")
    return keys
if __name__=='__main__':
    out={}
    for p in ['src/matrices/iterators.rs','src/tensors/indexing.rs']:
        out[p]=sorted(set(scan('/repo/'+p)))
    print(json.dumps(out,indent=1)); print(sum(len(v) for v in out.values()),file=sys.stderr)
