"""Shared by props/c12_extra.py and props/c16_extra.py: the property's own correspondence workload
run once more through a *release* build of its harness binary (overflow checks off, as the crate
is built by its users), thorough tier only.

The model describes the dev profile.  The answers are compared before `##` only, and an operation
whose model answer is a panic is accepted with any panic (in a release build an arithmetic overflow
does not panic by itself: the documented panic is then raised by a later check, e.g. the capacity
check of `Vec::with_capacity` in `Matrix::partition` with non-ascending boundaries).  Everything
else — in particular `None` / `none` on every index of an empty view, where the dev profile's
answer does not come from an overflow check either — must be identical.
"""
import os
import sys

sys.path.insert(0, os.path.dirname(os.path.abspath(__file__)))
import _sweep  # noqa: E402


def split_answer(line):
    if " ## " in line:
        obs, aux = line.split(" ## ", 1)
        return obs.strip(), aux.strip()
    return line.strip(), ""


def read_answers(path):
    answers = open(path, encoding="utf-8", errors="replace").read().split("\n")
    if answers and answers[-1] == "":
        answers.pop()
    return answers


def run(ctx, pid, interesting):
    """interesting: predicate on an operation line, counted in the evidence (empty-view stacks …)"""
    if ctx["tier"] != "thorough":
        return {"violations": [], "coverage": {"release_run": "thorough tier only"}, "samples": []}
    corr = ctx.get("corr")
    if not corr or "ops_list" not in corr:
        return {"violations": [], "coverage": {"release_run": "no correspondence stream"}, "samples": []}
    ops, model = corr["ops_list"], corr["model"]
    wd = os.path.join(ctx["work"], "release")
    os.makedirs(wd, exist_ok=True)
    binr = ctx["bin_for"](pid, True)
    ops_path = os.path.join(wd, pid + ".own.ops")
    with open(ops_path, "w") as f:
        f.write("".join(l + "\n" for l in ops))
    out_path = os.path.join(wd, pid + ".own.release.out")
    rc, err, _hook = _sweep.run_impl(ctx, pid, ops_path, out_path, {}, binr)
    answers = read_answers(out_path)
    violations = []
    if rc != 0 or len(answers) != len(ops):
        rc2, err2, _ = _sweep.run_impl(ctx, pid, ops_path, out_path, {"EMLV_FLUSH": "1"}, binr)
        answers = read_answers(out_path)
        k = min(len(answers), len(ops) - 1)
        s = _sweep.segment_start(ops, k)
        violations.append({"case": f"{pid}: " + " ; ".join(ops[s:k + 1])[-600:], "kind": "crash", "ops": ops[s:k + 1],
                           "build": "release", "binary": "emlv-" + pid,
                           "explanation": f"release build: the process died (exit {rc2}): {err2[-300:]}"})
        return {"violations": violations, "coverage": {"release_run": {"operations": len(answers)}}, "samples": []}
    seen, n_bad, n_panic_any, n_interesting = set(), 0, 0, 0
    samples = []
    for i, (a, m) in enumerate(zip(answers, model)):
        ao, mo = split_answer(a)[0], split_answer(m)[0]
        if interesting(ops[i]):
            n_interesting += 1
        if mo.startswith("panic("):
            n_panic_any += 1
            if ao.startswith("panic("):
                continue
        elif ao == mo:
            continue
        s = _sweep.segment_start(ops, i)
        if s in seen:
            continue
        seen.add(s)
        n_bad += 1
        if n_bad > 4:
            continue
        violations.append({
            "case": f"{pid}: " + " ; ".join(ops[s:i + 1])[-600:], "kind": "obs", "ops": ops[s:i + 1],
            "build": "release", "binary": "emlv-" + pid, "implementation_answer": a, "model_answer": m,
            "explanation": "release build (overflow checks off): the implementation's answer differs from the "
                           "answer the property demands (the model's, before `##`)"})
    cov = {"release_run": {"operations": len(ops), "answers_differing_from_model": n_bad,
                           "model_panics_accepted_with_any_panic": n_panic_any,
                           "checked_getter_operations": n_interesting}}
    if ops:
        j = next((i for i, o in enumerate(ops) if interesting(o)), 0)
        samples.append({"workload": pid + " own, release build", "op": ops[j], "implementation": answers[j],
                        "model": model[j]})
    return {"violations": violations, "coverage": cov, "samples": samples}
