"""Shared helper for the checks that re-run the other properties' workloads (C10, C18)."""
import os
import re
import subprocess


def line_protocol_properties(root, exclude):
    out = []
    pdir = os.path.join(root, "props")
    for fn in sorted(os.listdir(pdir)):
        m = re.fullmatch(r"(C\d+)\.json", fn)
        if not m or m.group(1) in exclude:
            continue
        import json
        reg = json.load(open(os.path.join(pdir, fn)))
        if reg.get("protocol", "line") == "line" and reg.get("claimed", True):
            out.append(m.group(1))
    return out


def generate(ctx, pid, tier, seed, wd):
    """Generated + corpus operation lines of property pid (comments stripped)."""
    os.makedirs(wd, exist_ok=True)
    lines = []
    cdir = os.path.join(ctx["root"], "corpus", pid)
    if os.path.isdir(cdir):
        for fn in sorted(os.listdir(cdir)):
            if fn.endswith(".ops"):
                lines += open(os.path.join(cdir, fn)).read().split("\n")
    p = subprocess.run([ctx["bin_for"](pid), "gen", pid, tier, str(seed)], stdout=subprocess.PIPE,
                       stderr=subprocess.PIPE, env=ctx["env"])
    if p.returncode != 0:
        raise ctx["MachineryError"](f"generator failed for {pid}: {p.stderr.decode()[-1000:]}")
    lines += p.stdout.decode().split("\n")
    ops = [l for l in lines if l.strip() and not l.startswith("#")]
    path = os.path.join(wd, pid + ".ops")
    with open(path, "w") as f:
        f.write("".join(l + "\n" for l in ops))
    return ops, path


def run_impl(ctx, pid, ops_path, out_path, mode_env=None, bin_path=None):
    env = dict(ctx["env"])
    env.update(mode_env or {})
    with open(ops_path, "rb") as fi, open(out_path, "wb") as fo:
        p = subprocess.run([bin_path or ctx["bin_for"](pid), "run", pid], stdin=fi, stdout=fo,
                           stderr=subprocess.PIPE, env=env)
    err = p.stderr.decode("utf-8", "replace")
    m = re.search(r"#hook checked=(\d+) failed=(\d+)", err)
    hook = (int(m.group(1)), int(m.group(2))) if m else None
    return p.returncode, err, hook


def segment_start(ops, k):
    while k > 0 and not ops[k].startswith("@"):
        k -= 1
    return k
