#!/usr/bin/env python3
"""C01 — extra step: the API-surface scan (props/api_surface.py): every `pub fn` and trait impl of
the tensor API in scope is either called by the correspondence harness or listed with the property
that drives it; a new unlisted one is reported (no-failing-input-found)."""
import os
import sys

sys.path.insert(0, os.path.dirname(os.path.abspath(__file__)))
import api_surface  # noqa: E402


def run(ctx):
    return api_surface.run(ctx)
