"""C09 — API surface audit.

`props/c09_api_surface.json` lists every `pub fn` of an inherent impl, every trait impl and every
derive of `src/matrices/iterators.rs` and `src/tensors/indexing.rs` (as found by the scanner
`props/_c09_scan.py`), each either `driven` (with the operation / `via=` variant of the C09
workload that executes it) or `outside` (with the property that owns it).  On every run the two
files of the checkout under test are scanned again:

* an item that is not in the table — a new iterator type, constructor, conversion, trait impl —
  is reported as a violation without a failing input (`no-failing-input-found`): nothing in the
  correspondence drives it yet, so the check would be blind to it;
* items of the table that vanished are only counted (a removed API cannot misbehave).

The `outside` items are listed in the evidence (`api_surface.undriven`).
"""
import json
import os
import sys

sys.path.insert(0, os.path.dirname(os.path.abspath(__file__)))
import _c09_scan  # noqa: E402

FILES = ["src/matrices/iterators.rs", "src/tensors/indexing.rs"]


def run(ctx):
    table = json.load(open(os.path.join(ctx["root"], "props", "c09_api_surface.json")))
    violations, samples = [], []
    driven = outside = vanished = 0
    undriven = []
    for f in FILES:
        path = os.path.join(ctx["repo"], f)
        found = set(_c09_scan.scan(path))
        known = table.get(f, {})
        for k in sorted(found):
            e = known.get(k)
            if e is None:
                violations.append({
                    "case": f"API surface: `{k}` in {f} is not in props/c09_api_surface.json",
                    "kind": "api-surface", "no_failing_input": True,
                    "detail": "a public function / trait impl / derive of the iterator files that no "
                              "operation of the C09 workload is registered to drive"})
            elif e["status"] == "driven":
                driven += 1
            else:
                outside += 1
                undriven.append(f"{f}: {k} — {e.get('why', '')}")
        vanished += len([k for k in known if k not in found])
    samples.append({"op": "api-surface scan", "implementation": f"{driven + outside} items",
                    "model": f"{driven} driven, {outside} outside C09"})
    return {"violations": violations,
            "coverage": {"api_surface": {"driven": driven, "outside_c09": outside,
                                         "listed_but_absent": vanished, "undriven": undriven}},
            "samples": samples}
