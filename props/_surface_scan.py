"""Scan of the crate's source for the PUBLIC fallible surface: every function whose name starts
with `try_` or whose return type is `Option<…>` / `Result<…>` and that is either a `pub fn`, a
method of a trait impl (`impl Trait for Type`) or a method declared in a `pub trait`.  Private and `pub(crate)` functions are no API: a
maintainer may rename, split or merge them freely; they are only counted (`private` in the
result), never keyed.

Keys are `<file>::<name>#<k>` — the k-th PUBLIC-surface function of that name in the file, in
source order — so that they move neither with line numbers nor with private helpers."""
import os
import re


def _body_start(s2, i):
    """index of the `{` opening the body of the item whose header starts at i: the first `{` outside
    `<…>`, `[…]`, `(…)`; None if a `;` ends the item first"""
    angle = square = paren = 0
    while i < len(s2):
        c = s2[i]
        if c == "-" and s2[i:i + 2] == "->":
            i += 2
            continue
        if c == "<":
            angle += 1
        elif c == ">":
            angle = max(0, angle - 1)
        elif c == "[":
            square += 1
        elif c == "]":
            square -= 1
        elif c == "(":
            paren += 1
        elif c == ")":
            paren -= 1
        elif angle == 0 and square == 0 and paren == 0:
            if c == "{":
                return i
            if c == ";":
                return None
        i += 1
    return None


def _impl_blocks(s2):
    """[(start, end, is_public_trait_surface)] of every `impl … { … }` block (trait impls) and
    every `pub trait … { … }` declaration, brace matched"""
    blocks = []
    for m in re.finditer(r"\bimpl\b|\bpub\s+(?:unsafe\s+)?trait\b", s2):
        j = _body_start(s2, m.end())
        if j is None:
            continue
        if m.group(0).startswith("pub"):
            is_trait = True
        else:
            head = re.split(r"\bwhere\b", s2[m.end():j])[0]
            is_trait = re.search(r"\bfor\s+[^<\s]", head) is not None
        depth, i = 1, j + 1
        while i < len(s2) and depth > 0:
            depth += {"{": 1, "}": -1}.get(s2[i], 0)
            i += 1
        blocks.append((j, i, is_trait))
    return blocks


def scan(repo, with_private=False):
    root = os.path.join(repo, "src")
    found, private = [], []
    for dp, _dn, fns in os.walk(root):
        for f in sorted(fns):
            if not f.endswith(".rs"):
                continue
            p = os.path.join(dp, f)
            rel = os.path.relpath(p, root)
            if rel.startswith("verif_hooks"):
                continue
            s = open(p, encoding="utf-8").read()
            # blank out comments (keeping the line structure)
            s2 = re.sub(r"/\*.*?\*/", lambda m: "\n" * m.group(0).count("\n"), s, flags=re.S)
            s2 = re.sub(r"//[^\n]*", "", s2)
            blocks = _impl_blocks(s2)
            counts = {}
            for m in re.finditer(r"(\bpub(?:\([a-z]+\))?\s+)?(?:unsafe\s+)?\bfn\s+(\w+)\s*(<[^{;(]*>)?\s*\(", s2):
                i, depth = m.end(), 1
                while i < len(s2) and depth > 0:
                    depth += {"(": 1, ")": -1}.get(s2[i], 0)
                    i += 1
                j = i
                while j < len(s2) and s2[j] not in "{;":
                    j += 1
                ret = " ".join(s2[i:j].split("where")[0].split())
                name = m.group(2)
                if not (name.startswith("try_") or re.match(r"->\s*(Option|Result)<", ret)):
                    continue
                before = s2[max(0, m.start() - 200):m.start()]
                if "#[test]" in before:
                    continue
                vis = (m.group(1) or "").strip()
                line = s2.count("\n", 0, m.start()) + 1
                enclosing = [b for b in blocks if b[0] < m.start() < b[1]]
                in_trait_impl = bool(enclosing) and max(enclosing, key=lambda b: b[0])[2]
                kind = "pub" if vis == "pub" else ("trait" if (in_trait_impl and vis == "") else "private")
                if kind == "private":
                    private.append({"file": rel, "line": line, "name": name, "vis": vis or "-", "returns": ret[:90]})
                    continue
                k = counts.get(name, 0)
                counts[name] = k + 1
                found.append({"key": f"{rel}::{name}#{k}", "file": rel, "line": line, "name": name,
                              "public": vis == "pub", "kind": kind, "returns": ret[:90]})
    return (found, private) if with_private else found


if __name__ == "__main__":
    import sys
    fs, pr = scan(sys.argv[1] if len(sys.argv) > 1 else "/repo", with_private=True)
    for e in fs:
        print(e["key"], e["line"], e["kind"], e["returns"])
    print(f"# {len(fs)} public-surface fallible functions, {len(pr)} private / pub(crate) ones (not keyed)")
