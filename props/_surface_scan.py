"""Scan of the crate's source for fallible functions: every `fn` (public or in a trait impl)
whose name starts with `try_` or whose return type is `Option<…>` / `Result<…>`.
Keys are `<file>::<name>#<k>` (k-th function of that name in the file, in source order), so that
they do not move with line numbers."""
import os
import re


def scan(repo):
    root = os.path.join(repo, "src")
    found = []
    for dp, _dn, fns in os.walk(root):
        for f in sorted(fns):
            if not f.endswith(".rs"):
                continue
            p = os.path.join(dp, f)
            rel = os.path.relpath(p, root)
            if rel.startswith("verif_hooks"):
                continue
            s = open(p, encoding="utf-8").read()
            # blank out comments (keeping the line structure)
            s2 = re.sub(r"/\*.*?\*/", lambda m: "\n" * m.group(0).count("\n"), s, flags=re.S)
            s2 = re.sub(r"//[^\n]*", "", s2)
            counts = {}
            for m in re.finditer(r"(\bpub(?:\([a-z]+\))?\s+)?(?:unsafe\s+)?\bfn\s+(\w+)\s*(<[^{;(]*>)?\s*\(", s2):
                i, depth = m.end(), 1
                while i < len(s2) and depth > 0:
                    depth += {"(": 1, ")": -1}.get(s2[i], 0)
                    i += 1
                j = i
                while j < len(s2) and s2[j] not in "{;":
                    j += 1
                ret = " ".join(s2[i:j].split("where")[0].split())
                name = m.group(2)
                k = counts.get(name, 0)
                counts[name] = k + 1
                if not (name.startswith("try_") or re.match(r"->\s*(Option|Result)<", ret)):
                    continue
                vis = (m.group(1) or "").strip()
                line = s2.count("\n", 0, m.start()) + 1
                # test functions and fns nested in #[test] modules are not API
                before = s2[max(0, m.start() - 200):m.start()]
                if "#[test]" in before:
                    continue
                found.append({"key": f"{rel}::{name}#{k}", "file": rel, "line": line, "name": name,
                              "public": vis == "pub", "vis": vis, "returns": ret[:90]})
    return found


if __name__ == "__main__":
    import sys
    for e in scan(sys.argv[1] if len(sys.argv) > 1 else "/repo"):
        print(e["key"], e["line"], e["vis"] or "-", e["returns"])
