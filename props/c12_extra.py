"""C12 — thorough tier: the correspondence workload once more through a release build of
`emlv-C12` (see props/_own_release.py).  The stacks over empty views (also: empty in the reversed
dimension only) answer `none` for every index there too — in a release build a missing emptiness
guard would not panic but wrap."""
import os
import sys

sys.path.insert(0, os.path.dirname(os.path.abspath(__file__)))
import _own_release  # noqa: E402


def run(ctx):
    return _own_release.run(ctx, "C12", lambda op: op.startswith(("mget", "lget", "partget", "srcget")))
