#!/usr/bin/env python3
"""C19 — "any user type supplying the same operations can be used as an element type everywhere a
numeric type is accepted": the compile-time side, decided by rustc.

The Lean model `EasyMl.Model.TraitReq` unfolds the blanket-impl supertraits of `Numeric` /
`NumericRef` / `Real` / `RealRef` (src/numeric.rs) into the list of concrete impls a type must
supply (24 for the numeric bound pair, 39 for the real one; theorems `numeric_requirements_exact`,
`real_requirements_exact`).  This step asks the model executable for that list
(`emlmodel C19`: `@ traitreq …`), generates a user type `U` supplying

  * all of them                         -> must be accepted by `T: Numeric, for<'a> &'a T: NumericRef<T>`
                                           (and by a real routine of the crate),
  * all but one, for every single impl  -> must be rejected (E0277),

and the built-in types the model classifies (unsigned integers, `Saturating<_>` are not numeric),
compiles the programs against the rlib of the checkout under test, and compares rustc's verdict with
the model's (`@ traitcheck …`).

  a full type rejected                -> concrete VIOLATION (a user type supplying every operation is
                                         not usable)
  a type with a missing impl accepted -> VIOLATION … no-failing-input-found (the library's
                                         requirements are no longer the modelled ones)
"""
import concurrent.futures
import os
import sys

ROOT = os.path.dirname(os.path.dirname(os.path.abspath(__file__)))
sys.path.insert(0, os.path.join(ROOT, "props"))
import c20_extra  # noqa: E402  (compile_probe, locate_rlib)

PRELUDE = """#![allow(warnings)]
use easy_ml::matrices::Matrix;
use easy_ml::numeric::extra::{Cos, Exp, Ln, Pi, Pow, Real, RealRef, Sin, Sqrt};
use easy_ml::numeric::{FromUsize, Numeric, NumericRef, ZeroOne};
use std::ops::{Add, Div, Mul, Neg, Sub};
#[derive(PartialEq)]
struct U(f64);
"""

OPS = {"add": ("Add", "add", "+"), "sub": ("Sub", "sub", "-"), "mul": ("Mul", "mul", "*"), "div": ("Div", "div", "/")}
FORMS = {"vv": ("", "U", "U"), "vr": ("<'a>", "&'a U", "U"), "rv": ("<'a>", "U", "&'a U"), "rr": ("<'a, 'b>", "&'b U", "&'a U")}
FNS = {"sqrt": "Sqrt", "exp": "Exp", "ln": "Ln", "sin": "Sin", "cos": "Cos"}


def impl_text(name):
    if "." in name:
        head, form = name.split(".")
        if head in OPS:
            tr, method, sym = OPS[head]
            gen, rhs, lhs = FORMS[form]
            return (f"impl{gen} {tr}<{rhs}> for {lhs} {{ type Output = U; fn {method}(self, rhs: {rhs}) -> U "
                    f"{{ U(self.0 {sym} rhs.0) }} }}\n")
        if head == "neg":
            lhs, gen = ("&'a U", "<'a>") if form == "r" else ("U", "")
            return f"impl{gen} Neg for {lhs} {{ type Output = U; fn neg(self) -> U {{ U(-self.0) }} }}\n"
        if head in FNS:
            lhs, gen = ("&'a U", "<'a>") if form == "r" else ("U", "")
            return f"impl{gen} {FNS[head]} for {lhs} {{ type Output = U; fn {head}(self) -> U {{ U(self.0.{head}()) }} }}\n"
        if head == "pow":
            gen, rhs, lhs = FORMS[form]
            return f"impl{gen} Pow<{rhs}> for {lhs} {{ type Output = U; fn pow(self, rhs: {rhs}) -> U {{ U(self.0.powf(rhs.0)) }} }}\n"
    return {
        "clone": "impl Clone for U { fn clone(&self) -> U { U(self.0) } }\n",
        "zero_one": "impl ZeroOne for U { fn zero() -> U { U(0.0) } fn one() -> U { U(1.0) } }\n",
        "from_usize": "impl FromUsize for U { fn from_usize(n: usize) -> Option<U> { Some(U(n as f64)) } }\n",
        "sum": "impl std::iter::Sum for U { fn sum<I: Iterator<Item = U>>(i: I) -> U { U(i.map(|u| u.0).sum()) } }\n",
        "partial_ord": "impl PartialOrd for U { fn partial_cmp(&self, o: &U) -> Option<std::cmp::Ordering> { self.0.partial_cmp(&o.0) } }\n",
        "debug": "impl std::fmt::Debug for U { fn fmt(&self, f: &mut std::fmt::Formatter) -> std::fmt::Result { write!(f, \"U\") } }\n",
        "pi": "impl Pi for U { fn pi() -> U { U(std::f64::consts::PI) } }\n",
    }[name]


MAIN = {
    "numeric": ("fn needs<T: Numeric>() where for<'a> &'a T: NumericRef<T> {}\n"
                "fn main() {\n    needs::<U>();\n"
                "    let m = Matrix::from_flat_row_major((2, 2), vec![U(1.0), U(2.0), U(3.0), U(4.0)]);\n"
                "    let _ = (easy_ml::linear_algebra::determinant::<U>(&m), &m * &m, m.inverse());\n}\n"),
    "real": ("fn needs<T: Real>() where for<'a> &'a T: RealRef<T> {}\n"
             "fn main() {\n    needs::<U>();\n"
             "    let _ = easy_ml::linear_algebra::softmax(vec![U(1.0), U(2.0)].into_iter());\n}\n"),
}
MAIN_MISSING = {
    "numeric": "fn needs<T: Numeric>() where for<'a> &'a T: NumericRef<T> {}\nfn main() {\n    needs::<U>();\n}\n",
    "real": "fn needs<T: Real>() where for<'a> &'a T: RealRef<T> {}\nfn main() {\n    needs::<U>();\n}\n",
}
BUILTINS = [  # (rust type, the model's caps name is fixed in the Lean theorem builtin_types_classified, expected numeric?)
    ("i32", True), ("i128", True), ("f32", True), ("f64", True), ("std::num::Wrapping<u8>", True),
    ("std::num::Wrapping<i64>", True), ("u8", False), ("u64", False), ("usize", False),
    ("std::num::Saturating<i32>", False), ("std::num::Saturating<u32>", False),
    ("easy_ml::differentiation::Trace<f64>", True), ("easy_ml::differentiation::Record<'static, f64>", True),
    ("easy_ml::differentiation::Trace<std::num::Wrapping<u8>>", True),
]
REAL_BUILTINS = [("f32", True), ("f64", True), ("i32", False), ("std::num::Wrapping<u8>", False),
                 ("easy_ml::differentiation::Trace<f64>", True), ("easy_ml::differentiation::Record<'static, f32>", True)]


def run(ctx):
    work = os.path.join(ctx["work"], "traitreq")
    os.makedirs(work, exist_ok=True)
    rlib, deps = c20_extra.locate_rlib(ctx, "emlv-C19")
    # the requirement lists, from the model
    q = os.path.join(work, "q.txt")
    with open(q, "w") as f:
        f.write("@ traitreq numeric\n@ traitreq real\n")
    rc, out, err = ctx["sh"]([ctx["model_bin"], "C19"], stdin_path=q, check=False, timeout=120)
    lines = out.split("\n")
    if rc != 0 or len(lines) < 2 or "bad-op" in lines[0] + lines[1]:
        raise ctx["MachineryError"]("emlmodel C19 does not answer `@ traitreq`: " + err[-500:])
    req = {"numeric": lines[0].split(), "real": lines[1].split()}
    probes = []

    def add(name, which, caps, body, rule):
        probes.append({"id": name, "which": which, "caps": caps, "rule": rule,
                       "src": PRELUDE + "".join(impl_text(c) for c in caps) + body})

    for which in ("numeric", "real"):
        add(f"user_{which}_full", which, req[which], MAIN[which],
            f"a user type supplying all {len(req[which])} required impls is accepted by the {which} bound pair and usable in a routine")
        for r in req[which]:
            add(f"user_{which}_without_{r.replace('.', '_')}", which, [c for c in req[which] if c != r], MAIN_MISSING[which],
                f"a user type supplying every required impl except `{r}` is rejected by the {which} bound pair")
    # model verdicts
    with open(q, "w") as f:
        for p in probes:
            f.write(f"@ traitcheck {p['which']} {','.join(p['caps'])}\n")
    rc, out, err = ctx["sh"]([ctx["model_bin"], "C19"], stdin_path=q, check=False, timeout=120)
    verdicts = out.split("\n")[:len(probes)]
    if rc != 0 or len(verdicts) != len(probes) or any(v not in ("accepted", "rejected") for v in verdicts):
        raise ctx["MachineryError"]("emlmodel C19 does not answer `@ traitcheck`")
    for p, v in zip(probes, verdicts):
        p["model"] = v == "accepted"
    # built-in types (the model's classification is the theorem builtin_types_classified)
    for ty, ok in BUILTINS:
        probes.append({"id": "builtin_numeric_" + "".join(ch if ch.isalnum() else "_" for ch in ty), "which": "numeric",
                       "caps": None, "model": ok, "rule": f"`{ty}` is {'a' if ok else 'not a'} numeric type",
                       "src": "#![allow(warnings)]\nuse easy_ml::numeric::{Numeric, NumericRef};\n"
                              "fn needs<T: Numeric>() where for<'a> &'a T: NumericRef<T> {}\n"
                              f"fn main() {{\n    needs::<{ty}>();\n}}\n"})
    for ty, ok in REAL_BUILTINS:
        probes.append({"id": "builtin_real_" + "".join(ch if ch.isalnum() else "_" for ch in ty), "which": "real",
                       "caps": None, "model": ok, "rule": f"`{ty}` is {'a' if ok else 'not a'} real type",
                       "src": "#![allow(warnings)]\nuse easy_ml::numeric::extra::{Real, RealRef};\n"
                              "fn needs<T: Real>() where for<'a> &'a T: RealRef<T> {}\n"
                              f"fn main() {{\n    needs::<{ty}>();\n}}\n"})
    for p in probes:
        p["path"] = os.path.join(work, p["id"] + ".rs")
        with open(p["path"], "w") as f:
            f.write(f"// rule: {p['rule']}\n// expect: {'compile' if p['model'] else 'fail E0277'}\n" + p["src"])
    with concurrent.futures.ThreadPoolExecutor(max_workers=min(16, os.cpu_count() or 4)) as ex:
        futs = {ex.submit(c20_extra.compile_probe, p["path"], rlib, deps, work): p for p in probes}
        for fut in concurrent.futures.as_completed(futs):
            futs[fut]["obs"] = fut.result()
    violations = []
    for p in probes:
        compiled, codes, first = p["obs"]
        if compiled == p["model"] and (compiled or "E0277" in codes):
            continue
        os.makedirs(os.path.join(ctx["root"], "replay"), exist_ok=True)
        rp = os.path.join("replay", f"C19-probe-{p['id']}.rs")
        with open(os.path.join(ctx["root"], rp), "w") as f:
            f.write(open(p["path"]).read())
        concrete = p["model"] and not compiled      # a type with every operation is not usable
        violations.append({
            "case": f"trait requirements: {p['rule']}", "kind": "probe", "expected_by_model": "accepted" if p["model"] else "rejected",
            "observed": "compiles" if compiled else "rejected " + ",".join(codes), "first_error": first,
            "no_failing_input": not concrete,
            "explanation": ("A user-defined (or built-in) type that supplies every operation the numeric traits ask for is "
                            "rejected by the compiler." if concrete else
                            "rustc accepts a type the model of the numeric traits' supertraits rejects (or rejects it for another "
                            "reason): the library's requirements are no longer the modelled ones; no failing input found."),
            "replay_argv": ["python3", "props/c20_extra.py", "replay", rp]})
    n_missing = sum(1 for p in probes if p["caps"] is not None and not p["model"])
    cov = {"programs": len(probes), "evaluations": len(probes), "traces_validated_against_impl": len(probes),
           "distinct_nontrivial": len(probes), "disagreements_checked": len(violations),
           "trait_requirement_probes": {"required_impls_numeric": len(req["numeric"]), "required_impls_real": len(req["real"]),
                                        "full_user_types": 2, "one_impl_missing": n_missing,
                                        "builtin_types": len(BUILTINS) + len(REAL_BUILTINS)}}
    ctx["log"](f"[C19] trait-requirement probes: {len(probes)} programs, {len(violations)} disagreements")
    return {"violations": violations[:6], "coverage": cov,
            "samples": [{"probe": p["id"], "model": "accepted" if p["model"] else "rejected",
                         "rustc": "compiles" if p["obs"][0] else "rejected " + ",".join(p["obs"][1])} for p in probes[:3]]}
