#!/usr/bin/env python3
"""C20 — compile-time contracts: the compiler is the implementation.

`pre(ctx)`  (before the theorems are built) regenerates lean/EasyMl/Generated/Structs.lean from the
            checkout under test (tools/gen_structs.py), so that the Lean theorems and the model
            executable of this run speak about the struct table of *this* tree.
`run(ctx)`  compiles the probe catalogue against the rlib of the checkout under test (the one the
            harness was just linked with):
  * probes/*.rs — hand-written must-compile / must-not-compile programs (lifetimes, borrow
    checking, sealing, `unsafe impl`, documented usages); the expected verdict and error code are
    in the header comment of each file;
  * generated auto-trait probes — `assert_send::<τ>()` / `assert_sync::<τ>()` for every public type
    family at four kinds of element / source type (Send+Sync, Send only, Sync only, neither).
    Each is decided three ways: by the property (the formula in FAMILIES below), by the Lean model
    over the regenerated struct table (emlmodel C20), and by rustc.
    rustc ≠ property        -> concrete VIOLATION (the probe program is the replay)
    rustc = property ≠ model -> VIOLATION … no-failing-input-found (model / translator out of step)

Stand-alone:  python3 props/c20_extra.py replay <probe.rs>      (used by `verif.py replay`)
"""
import concurrent.futures
import hashlib
import json
import os
import re
import subprocess
import sys

ROOT = os.path.dirname(os.path.dirname(os.path.abspath(__file__)))
sys.path.insert(0, os.path.join(ROOT, "tools"))
sys.path.insert(0, os.path.join(ROOT, "props"))
import gen_structs  # noqa: E402
import c20_lifetimes  # noqa: E402

PROBES = os.path.join(ROOT, "probes")

# ------------------------------------------------------------------------------------------
# element / source kinds: (rust type, Send, Sync)
# ------------------------------------------------------------------------------------------
KINDS = {
    "E11": ("f64-like: Send + Sync", True, True),
    "E10": ("Cell<f64>: Send, not Sync", True, False),
    "E01": ("PhantomData<MutexGuard>: Sync, not Send", False, True),
    "E00": ("Rc<f64>: neither", False, False),
}

PRELUDE = """#![allow(warnings)]
use easy_ml::differentiation::{Derivatives, Primitive, Record, RecordContainer, RecordMatrix, RecordTensor, Trace, WengertList};
use easy_ml::differentiation::record_operations::*;
use easy_ml::matrices::iterators::*;
use easy_ml::matrices::views::{MatrixPart, MatrixQuadrants, MatrixRange, MatrixReverse, MatrixView, IndexRange, Reverse};
use easy_ml::matrices::Matrix;
use easy_ml::tensors::indexing::{ShapeIterator, TensorAccess, TensorIterator, TensorOwnedIterator, TensorReferenceIterator, TensorReferenceMutIterator, TensorTranspose};
use easy_ml::tensors::views::{TensorChain, TensorExpansion, TensorIndex, TensorMask, TensorRange, TensorRename, TensorReverse, TensorStack, TensorView};
use easy_ml::tensors::{InvalidShapeError, Tensor};
use easy_ml::interop::{MatrixRefTensor, TensorRefMatrix};
use std::cell::Cell;
use std::marker::PhantomData;
use std::rc::Rc;
use std::sync::MutexGuard;
type E11 = f64;
#[derive(Clone, Debug, PartialEq)] struct E10(Cell<f64>);
#[derive(Clone, Debug, PartialEq)] struct E01(PhantomData<MutexGuard<'static, f64>>);
#[derive(Clone, Debug, PartialEq)] struct E00(Rc<f64>);
impl Primitive for E10 {}
impl Primitive for E01 {}
impl Primitive for E00 {}
fn assert_send<T: Send>() {}
fn assert_sync<T: Sync>() {}
"""


class F:
    """flags of a kind"""

    def __init__(self, name):
        self.name = name
        _, self.send, self.sync = KINDS[name]


def both(pred):
    return (lambda T, S: pred(T, S, "send"), lambda T, S: pred(T, S, "sync"))


def fl(x, tr):
    return x.send if tr == "send" else x.sync


# (family, rust type with {T} / {S}, varies S independently?, send formula, sync formula)
# the formulas are what the *property* demands of the family
NEVER = (lambda T, S: False, lambda T, S: False)
AS_T = (lambda T, S: T.send, lambda T, S: T.sync)
AS_T_AND_S = (lambda T, S: T.send and S.send, lambda T, S: T.sync and S.sync)
ALWAYS = (lambda T, S: True, lambda T, S: True)
SHARED = (lambda T, S: T.sync and S.sync, lambda T, S: T.sync and S.sync)

FAMILIES = []


def fam(family, ty, formulas, vary_s=False):
    FAMILIES.append({"family": family, "type": ty, "send": formulas[0], "sync": formulas[1], "vary_s": vary_s})


# -- the tape family -------------------------------------------------------------------------
fam("tape", "WengertList<{T}>", (lambda T, S: T.send, lambda T, S: False))
fam("tape", "Record<'static, {T}>", NEVER)
fam("tape", "RecordContainer<'static, {T}, {S}, 2>", NEVER, vary_s=True)
fam("tape", "RecordTensor<'static, {T}, Tensor<({T}, usize), 2>, 2>", NEVER)
fam("tape", "RecordMatrix<'static, {T}, Matrix<({T}, usize)>>", NEVER)
fam("tape", "easy_ml::differentiation::iterators::AsRecords<'static, {S}, {T}>", NEVER, vary_s=True)
fam("tape", "easy_ml::differentiation::iterators::InconsistentHistory<'static, {T}>", NEVER)
fam("tape", "easy_ml::differentiation::iterators::InvalidRecordIteratorError<'static, {T}, 2>", NEVER)
# -- owners ------------------------------------------------------------------------------------
for ty in ["Tensor<{T}, 2>", "Matrix<{T}>", "Trace<{T}>", "Derivatives<{T}>", "MatrixPart<'static, {T}>",
           "MatrixQuadrants<'static, {T}>", "WithIndex<{T}>",
           "easy_ml::linear_algebra::LDLTDecomposition<{T}>", "easy_ml::linear_algebra::QRDecompositionTensor<{T}>"]:
    fam("owner", ty, AS_T)
# -- error and plain types ---------------------------------------------------------------------
for ty in ["easy_ml::matrices::ScalarConversionError", "InvalidShapeError<3>",
           "easy_ml::tensors::InvalidDimensionsError<3, 2>", "easy_ml::tensors::indexing::InvalidDimensionsError<3>",
           "easy_ml::tensors::views::IndexRangeValidationError<3, 2>",
           "easy_ml::tensors::views::StrictIndexRangeValidationError<3, 2>", "IndexRange", "Reverse",
           "easy_ml::matrices::slices::Slice", "easy_ml::matrices::slices::Slice2D", "ShapeIterator<3>",
           "easy_ml::tensors::views::DataLayout<2>", "easy_ml::matrices::views::DataLayout"]:
    fam("plain", ty, ALWAYS)
# -- view adaptors -----------------------------------------------------------------------------
for ty in ["TensorView<{T}, {S}, 2>", "TensorAccess<{T}, {S}, 2>", "TensorTranspose<{T}, {S}, 2>",
           "TensorIndex<{T}, {S}, 3, 1>", "TensorExpansion<{T}, {S}, 2, 1>", "TensorRange<{T}, {S}, 2>",
           "TensorMask<{T}, {S}, 2>", "TensorRename<{T}, {S}, 2>", "TensorReverse<{T}, {S}, 2>",
           "TensorChain<{T}, {S}, 2>", "TensorStack<{T}, {S}, 2>", "MatrixView<{T}, {S}>",
           "MatrixRange<{T}, {S}>", "MatrixReverse<{T}, {S}>", "MatrixRefTensor<{T}, {S}>"]:
    fam("view", ty, AS_T_AND_S, vary_s=True)
fam("view", "TensorRefMatrix<{T}, {S}, easy_ml::interop::RowAndColumn>", AS_T_AND_S, vary_s=True)
# the documented sources
for ty in ["TensorView<{T}, Tensor<{T}, 2>, 2>", "TensorRange<{T}, Tensor<{T}, 3>, 3>",
           "TensorView<{T}, TensorRange<{T}, Tensor<{T}, 2>, 2>, 2>", "MatrixView<{T}, Matrix<{T}>>",
           "MatrixView<{T}, MatrixRange<{T}, Matrix<{T}>>>", "TensorView<{T}, &'static mut Tensor<{T}, 2>, 2>"]:
    fam("view@source", ty, AS_T)
fam("view@source", "TensorView<{T}, &'static Tensor<{T}, 2>, 2>", (lambda T, S: T.send and T.sync, lambda T, S: T.sync))
fam("view@source", "MatrixView<{T}, &'static Matrix<{T}>>", (lambda T, S: T.send and T.sync, lambda T, S: T.sync))
# every tensor / matrix view adaptor at the three kinds of source the library documents — owned,
# shared reference, mutable reference — and all four element kinds (Send+Sync f64, Send-only Cell<f64>,
# Sync-only PhantomData<MutexGuard>, neither Rc<f64>): with a shared-reference source a `&Tensor<T>`
# crosses the thread boundary (needs `T: Sync`) and the adaptor's own `PhantomData<T>` marker needs `T: Send`
REF_SRC = (lambda T, S: T.send and T.sync, lambda T, S: T.sync)
for adaptor, d in [("TensorView", "2"), ("TensorAccess", "2"), ("TensorTranspose", "2"), ("TensorRange", "2"),
                   ("TensorMask", "2"), ("TensorRename", "2"), ("TensorReverse", "2"), ("TensorIndex", "3, 1"),
                   ("TensorExpansion", "2, 1")]:
    dim = d.split(",")[0]
    fam("view@source", f"{adaptor}<{{T}}, Tensor<{{T}}, {dim}>, {d}>", AS_T)
    fam("view@source", f"{adaptor}<{{T}}, &'static mut Tensor<{{T}}, {dim}>, {d}>", AS_T)
    fam("view@source", f"{adaptor}<{{T}}, &'static Tensor<{{T}}, {dim}>, {d}>", REF_SRC)
for adaptor in ["MatrixView", "MatrixRange", "MatrixReverse"]:
    fam("view@source", f"{adaptor}<{{T}}, Matrix<{{T}}>>", AS_T)
    fam("view@source", f"{adaptor}<{{T}}, &'static mut Matrix<{{T}}>>", AS_T)
    fam("view@source", f"{adaptor}<{{T}}, &'static Matrix<{{T}}>>", REF_SRC)
# iterators over a view of a borrowed tensor (a shared borrow inside the source)
fam("iterator(shared)", "TensorReferenceIterator<'static, {T}, TensorView<{T}, &'static Tensor<{T}, 2>, 2>, 2>",
    (lambda T, S: T.sync, lambda T, S: T.sync))
fam("iterator(mut/owned)", "TensorOwnedIterator<{T}, TensorAccess<{T}, Tensor<{T}, 2>, 2>, 2>", AS_T)
# -- iterators (at the documented sources; struct bounds require a real source) ------------------
for ty in ["TensorReferenceIterator<'static, {T}, Tensor<{T}, 2>, 2>", "ColumnIterator<'static, {T}>",
           "RowIterator<'static, {T}>", "ColumnMajorIterator<'static, {T}>", "RowMajorIterator<'static, {T}>",
           "ColumnReferenceIterator<'static, {T}>", "RowReferenceIterator<'static, {T}>",
           "ColumnMajorReferenceIterator<'static, {T}>", "RowMajorReferenceIterator<'static, {T}>",
           "DiagonalIterator<'static, {T}>", "DiagonalReferenceIterator<'static, {T}>",
           "RowMajorReferenceIterator<'static, {T}, MatrixRange<{T}, Matrix<{T}>>>"]:
    fam("iterator(shared)", ty, (lambda T, S: T.sync, lambda T, S: T.sync))
fam("iterator(shared)", "TensorIterator<'static, {T}, Tensor<{T}, 2>, 2>",
    (lambda T, S: T.send and T.sync, lambda T, S: T.sync))
for ty in ["TensorReferenceMutIterator<'static, {T}, Tensor<{T}, 2>, 2>",
           "ColumnMajorReferenceMutIterator<'static, {T}>", "RowMajorReferenceMutIterator<'static, {T}>",
           "DiagonalReferenceMutIterator<'static, {T}>", "ColumnReferenceMutIterator<'static, {T}>",
           "RowReferenceMutIterator<'static, {T}>", "TensorOwnedIterator<{T}, Tensor<{T}, 2>, 2>",
           "ColumnMajorOwnedIterator<{T}>", "RowMajorOwnedIterator<{T}>"]:
    fam("iterator(mut/owned)", ty, AS_T)
# iterators of the generic-source kind, where the struct has no bound on S
for ty in ["TensorReferenceIterator<'static, {T}, {S}, 2>"]:
    fam("iterator(shared)", ty, SHARED, vary_s=True)
fam("iterator(shared)", "TensorIterator<'static, {T}, {S}, 2>",
    (lambda T, S: T.send and S.sync, lambda T, S: T.sync and S.sync), vary_s=True)
fam("iterator(mut/owned)", "TensorReferenceMutIterator<'static, {T}, {S}, 2>", AS_T_AND_S, vary_s=True)
fam("iterator(mut/owned)", "TensorOwnedIterator<{T}, {S}, 2>", (lambda T, S: S.send, lambda T, S: S.sync), vary_s=True)


def kind_pairs(vary_s, ty=""):
    if "{T}" not in ty and "{S}" not in ty:
        return [("E11", "E11")]
    if not vary_s:
        return [(k, "E11") for k in ("E11", "E10", "E01", "E00")]
    return [("E11", "E11"), ("E10", "E11"), ("E01", "E11"), ("E00", "E11"), ("E11", "E10"), ("E11", "E01"),
            ("E11", "E00"), ("E10", "E01")]


# ------------------------------------------------------------------------------------------
# compiling
# ------------------------------------------------------------------------------------------

def locate_rlib(ctx, bin_name="emlv-C20"):
    """The easy_ml rlib the harness of this run was linked with, and its deps directory."""
    env = dict(ctx["env"])
    env["RUSTFLAGS"] = env.get("RUSTFLAGS", "") + " -Awarnings"
    cmd = ["cargo", "build", "--offline", "--quiet", "--message-format=json", "--target-dir", ctx["harness_target_dir"]]
    if os.path.exists(os.path.join(ctx["root"], "harness", "src", "bin", bin_name + ".rs")):
        cmd += ["--bin", bin_name]      # one binary per property: only ours (and easy-ml) is needed
    rc, out, err = ctx["sh"](cmd, cwd=ctx.get("harness_dir") or os.path.join(ctx["root"], "harness"), check=False, env=env, timeout=1800)
    if rc != 0:
        raise ctx["MachineryError"]("cargo build (to locate the rlib) failed:\n" + err[-3000:])
    rlib = None
    for line in out.split("\n"):
        if not line.startswith("{"):
            continue
        try:
            m = json.loads(line)
        except ValueError:
            continue
        if m.get("reason") == "compiler-artifact" and m.get("target", {}).get("name") in ("easy_ml", "easy-ml"):
            for fn in m.get("filenames", []):
                if fn.endswith(".rlib"):
                    rlib = fn
    if rlib is None:
        raise ctx["MachineryError"]("cannot find the easy_ml rlib in cargo's output")
    return rlib, os.path.dirname(rlib)


def compile_probe(src_path, rlib, deps, outdir):
    """-> (compiled: bool, [error codes], first error message)"""
    out = os.path.join(outdir, hashlib.sha1(src_path.encode()).hexdigest()[:16] + ".rmeta")
    cmd = ["rustc", "--edition", "2021", "--crate-type", "bin", "--emit=metadata", "-o", out, "--error-format=json",
           "-L", "dependency=" + deps, "--extern", "easy_ml=" + rlib, src_path]
    p = subprocess.run(cmd, stdout=subprocess.PIPE, stderr=subprocess.PIPE, timeout=300)
    codes, first = [], ""
    for line in p.stderr.decode("utf-8", "replace").split("\n"):
        if not line.startswith("{"):
            continue
        try:
            d = json.loads(line)
        except ValueError:
            continue
        if d.get("level") == "error":
            code = (d.get("code") or {}).get("code")
            if code:
                codes.append(code)
            if not first and d.get("message") and not d["message"].startswith("aborting due to"):
                first = d["message"]
    try:
        os.remove(out)
    except OSError:
        pass
    return p.returncode == 0, codes, first


def parse_header(path):
    rule, expect = "", None
    for line in open(path):
        if not line.startswith("//"):
            break
        m = re.match(r"//\s*rule:\s*(.*)", line)
        if m:
            rule = m.group(1).strip()
        m = re.match(r"//\s*expect:\s*(compile|fail)\s*(.*)", line)
        if m:
            expect = (m.group(1), [c.strip() for c in m.group(2).split(",") if c.strip()])
    return rule, expect


def judge(expect, compiled, codes):
    """None if the observation matches the expectation, else a description"""
    want, want_codes = expect
    if want == "compile":
        return None if compiled else "must compile, but was rejected with " + (",".join(codes) or "an error")
    if compiled:
        return "must be rejected (" + "/".join(want_codes) + "), but compiles"
    if want_codes and not any(c in codes for c in want_codes):
        return "rejected, but with " + (",".join(codes) or "no code") + " instead of " + "/".join(want_codes)
    return None


# ------------------------------------------------------------------------------------------
# hooks
# ------------------------------------------------------------------------------------------

def load_table(ctx):
    try:
        return gen_structs.Table(ctx["repo"])
    except Exception as e:  # a source construct the translator cannot read is a machinery error
        raise ctx["MachineryError"](f"tools/gen_structs.py cannot translate {ctx['repo']}/src: {type(e).__name__}: {e}")


def pre(ctx):
    table = load_table(ctx)
    text = gen_structs.render(table)
    out = gen_structs.DEFAULT_OUT
    old = open(out).read() if os.path.exists(out) else None
    if old != text:
        with open(out, "w") as f:
            f.write(text)
        ctx["log"](f"[C20] struct table regenerated from {ctx['repo']}/src: CHANGED ({len(table.items)} definitions); "
                   "the theorems are re-checked against it")
    return {"changed": old != text}


def auto_trait_probes(table, workdir):
    """[(probe id, family, rust type, trait, property verdict, model query, source path)]"""
    leaves = {k: ("leaf", v[1], v[2]) for k, v in KINDS.items()}
    rows = []
    os.makedirs(workdir, exist_ok=True)
    for f in FAMILIES:
        for (tk, sk) in kind_pairs(f["vary_s"], f["type"]):
            ty = f["type"].replace("{T}", tk).replace("{S}", sk)
            T, S = F(tk), F(sk)
            ast = table.resolve_probe_type(ty, leaves)
            query = gen_structs.sexp_ty(ast, table)
            for tr in ("send", "sync"):
                want = bool(f[tr](T, S))
                pid = re.sub(r"[^A-Za-z0-9]+", "_", f"{tr}_{ty}").strip("_")[:150]
                path = os.path.join(workdir, pid + ".rs")
                header = (f"// rule: [{f['family']}] `{ty}: {tr.capitalize()}` must {'hold' if want else 'not hold'} "
                          f"(T = {KINDS[tk][0]}" + (f", S = {KINDS[sk][0]}" if f["vary_s"] else "") + ")\n"
                          f"// expect: {'compile' if want else 'fail E0277'}\n")
                body = f"fn main() {{\n    assert_{tr}::<{ty}>();\n}}\n"
                with open(path, "w") as fh:
                    fh.write(header + PRELUDE + body)
                rows.append({"id": pid, "family": f["family"], "type": ty, "trait": tr, "want": want, "query": query,
                             "path": path})
    return rows


def run(ctx):
    log = ctx["log"]
    work = os.path.join(ctx["work"], "probes")
    os.makedirs(work, exist_ok=True)
    rlib, deps = locate_rlib(ctx)
    table = load_table(ctx)
    violations, samples = [], []
    cov = {}

    # ---- hand-written catalogue --------------------------------------------------------------
    hand = []
    for fn in sorted(os.listdir(PROBES)):
        if fn.endswith(".rs"):
            path = os.path.join(PROBES, fn)
            rule, expect = parse_header(path)
            if expect is None:
                raise ctx["MachineryError"](f"probe {fn} has no `// expect:` header")
            hand.append({"id": fn[:-3], "path": path, "rule": rule, "expect": expect})
    n_hand_files = len(hand)
    # ---- generated lifetime-relation probes (entry point x receiver kind) -----------------------
    life = c20_lifetimes.generate(os.path.join(work, "life"), ctx["repo"])
    hand += life
    uncovered, n_entry_points = c20_lifetimes.coverage(ctx["repo"])
    # ---- generated auto-trait probes ----------------------------------------------------------
    auto = auto_trait_probes(table, os.path.join(work, "auto"))
    # model verdicts in one batch
    qpath = os.path.join(work, "queries.txt")
    with open(qpath, "w") as f:
        for r in auto:
            f.write(f"@ {r['trait']} {r['query']}\n")
    rc, out, err = ctx["sh"]([ctx["model_bin"], "C20"], stdin_path=qpath, check=False, timeout=600)
    answers = out.split("\n")[:len(auto)]
    if rc != 0 or len(answers) != len(auto):
        raise ctx["MachineryError"]("emlmodel C20 failed: " + err[-1000:])
    for r, a in zip(auto, answers):
        r["model"] = a.strip()
        if r["model"] == "bad-op":
            raise ctx["MachineryError"](f"emlmodel C20 cannot parse the query for {r['type']}: {r['query']}")

    # ---- compile everything in parallel --------------------------------------------------------
    # auto-trait probes that must compile are first tried in batches (one program with up to 40
    # assertions): a batch that compiles decides all its members at once; the members of a batch
    # that does not compile are compiled one by one like everything else
    positives = [r for r in auto if r["want"]]
    batches = []
    bdir = os.path.join(work, "batch")
    os.makedirs(bdir, exist_ok=True)
    for k in range(0, len(positives), 40):
        members = positives[k:k + 40]
        path = os.path.join(bdir, f"batch_{k // 40:03d}.rs")
        with open(path, "w") as fh:
            fh.write("// batch of must-compile auto-trait assertions\n" + PRELUDE + "fn main() {\n"
                     + "".join(f"    assert_{r['trait']}::<{r['type']}>();\n" for r in members) + "}\n")
        batches.append((path, members))
    # the generated must-compile lifetime probes likewise: 25 programs per file, each in its own module
    life_pos = [h for h in life if h["expect"][0] == "compile"]
    for k in range(0, len(life_pos), 25):
        members = life_pos[k:k + 25]
        path = os.path.join(bdir, f"life_batch_{k // 25:03d}.rs")
        parts = []
        for j, h in enumerate(members):
            body = open(h["path"]).read().split(c20_lifetimes.PRELUDE, 1)[1]
            body = body.replace("fn main() {}", "").replace("fn main() {", "fn main_() {")
            parts.append(f"mod m{j} {{\n    use super::*;\n{body}\n}}\n")
        with open(path, "w") as fh:
            fh.write("// batch of must-compile lifetime probes\n" + c20_lifetimes.PRELUDE + "".join(parts) + "fn main() {}\n")
        batches.append((path, members))
    batched = {id(m) for _p, members in batches for m in members}
    pool = concurrent.futures.ThreadPoolExecutor(max_workers=min(16, (os.cpu_count() or 4)))
    with pool as ex:
        bf = {ex.submit(compile_probe, p, rlib, deps, work): members for p, members in batches}
        jobs = [(h["path"], h) for h in hand if id(h) not in batched] + [(r["path"], r) for r in auto if not r["want"]]
        futs = {ex.submit(compile_probe, p, rlib, deps, work): item for p, item in jobs}
        for fut in concurrent.futures.as_completed(bf):
            ok, _codes, _first = fut.result()
            for r in bf[fut]:
                if ok:
                    r["obs"] = (True, [], "")
                else:
                    futs[ex.submit(compile_probe, r["path"], rlib, deps, work)] = r
        for fut in concurrent.futures.as_completed(list(futs)):
            futs[fut]["obs"] = fut.result()

    def replay_copy(name, path):
        os.makedirs(os.path.join(ctx["root"], "replay"), exist_ok=True)
        dst = os.path.join(ctx["root"], "replay", f"C20-probe-{name}.rs")
        with open(path) as src, open(dst, "w") as out_f:
            out_f.write(src.read())
        return os.path.relpath(dst, ctx["root"])

    n_fail_expected = 0
    for h in hand:
        compiled, codes, first = h["obs"]
        why = judge(h["expect"], compiled, codes)
        if h["expect"][0] == "fail":
            n_fail_expected += 1
        if why:
            rp = replay_copy(h["id"], h["path"])
            wrong_code_only = (not compiled) and h["expect"][0] == "fail"
            violations.append({
                "case": f"probe {h['id']}: {h['rule']}", "kind": "probe",
                "probe": (f"probes/{h['id']}.rs" if "family" not in h else "generated: " + h["family"]),
                "expected": " ".join([h["expect"][0]] + h["expect"][1]), "observed": ("compiles" if compiled else "rejected " + ",".join(codes)),
                "first_error": first, "why": why, "no_failing_input": wrong_code_only,
                "explanation": ("The program is rejected, but not for the catalogued reason: the catalogue no longer "
                                "describes the compiler's verdict; no violating program found." if wrong_code_only else
                                "The probe program is a client program whose acceptance by the compiler contradicts "
                                "the property (or a documented valid usage that no longer compiles)."),
                "replay_argv": ["python3", "props/c20_extra.py", "replay", rp]})
    for fn_file, fn_name in uncovered:
        violations.append({
            "case": f"lifetime probe table does not cover the entry point `{fn_name}` of {fn_file}", "kind": "catalogue",
            "no_failing_input": True, "broken": "props/c20_lifetimes.py ENTRIES (coverage of the record / container API)",
            "explanation": "A public function whose result type carries a tape lifetime has no row in the lifetime "
                           "probe table: its documented lifetime relation is not checked; no violating program found."})
    disagreements_model = 0
    for r in auto:
        compiled, codes, first = r["obs"]
        expect = ("compile", []) if r["want"] else ("fail", ["E0277"])
        why = judge(expect, compiled, codes)
        if not compiled and r["want"] is False and why is None:
            # it must be the auto trait that is missing, not some other bound
            if "cannot be sent between threads" not in first and "cannot be shared between threads" not in first:
                why = "rejected with E0277, but not for the auto trait: " + first[:200]
        model_says = {"true": True, "false": False}.get(r["model"])
        if why:
            rp = replay_copy(r["id"], r["path"])
            violations.append({
                "case": f"auto-trait probe [{r['family']}] {r['type']}: {r['trait'].capitalize()}", "kind": "probe",
                "expected": "holds" if r["want"] else "does not hold", "observed": "compiles" if compiled else "rejected " + ",".join(codes),
                "model_verdict": r["model"], "first_error": first, "why": why, "no_failing_input": False,
                "explanation": "rustc's verdict on this client program contradicts the Send/Sync contract of the property.",
                "replay_argv": ["python3", "props/c20_extra.py", "replay", rp]})
        elif model_says is None or model_says != compiled:
            disagreements_model += 1
            rp = replay_copy(r["id"], r["path"])
            violations.append({
                "case": f"auto-trait model vs rustc [{r['family']}] {r['type']}: {r['trait'].capitalize()}", "kind": "model",
                "observed": "compiles" if compiled else "rejected", "model_verdict": r["model"], "no_failing_input": True,
                "broken": "correspondence between the Lean auto-trait model over the regenerated struct table and rustc",
                "explanation": "rustc agrees with the property on this probe but the Lean model does not: the struct "
                               "translator or the model is out of step with the code; no violating program found.",
                "replay_argv": ["python3", "props/c20_extra.py", "replay", rp]})

    # keep the report readable: at most 8 new violations, concrete ones first
    known_res = []
    try:
        for line in open(os.path.join(ctx["root"], "known_findings.txt")):
            m = re.match(r"known:\s+property=C20\s+match=(\S+)", line.strip())
            if m:
                known_res.append(re.compile(m.group(1)))
    except OSError:
        pass
    # recorded findings last, so that they never crowd out a new violation
    violations.sort(key=lambda v: (any(r.search(v["case"]) for r in known_res), v["no_failing_input"], v["case"]))
    total_violations = len(violations)
    if os.environ.get("C20_ALL_VIOLATIONS"):
        for v in violations:
            log("  " + v["case"] + " :: " + str(v.get("why", v.get("broken"))) + " :: " + str(v.get("first_error", ""))[:150])
    violations = violations[:8 + sum(1 for v in violations if any(r.search(v['case']) for r in known_res))]

    fam_counts = {}
    for r in auto:
        k = f"auto.{r['family']}.{'holds' if r['want'] else 'fails'}"
        fam_counts[k] = fam_counts.get(k, 0) + 1
    for h in life:
        fam_counts[h["family"]] = fam_counts.get(h["family"], 0) + 1
    n_life_fail = sum(1 for h in life if h["expect"][0] == "fail")
    fam_counts["hand.must-compile"] = n_hand_files - (n_fail_expected - n_life_fail)
    fam_counts["hand.must-not-compile"] = n_fail_expected - n_life_fail
    cov["lifetime_entry_points"] = {"in_source": n_entry_points, "uncovered": [f"{a}:{b}" for a, b in uncovered],
                                    "table_rows": len(c20_lifetimes.ENTRIES), "round_trips": len(c20_lifetimes.ROUND_TRIPS)}
    codes_seen = {}
    for item in hand + auto:
        for c in set(item["obs"][1]):
            codes_seen[c] = codes_seen.get(c, 0) + 1
    cov["programs"] = len(hand) + len(auto)
    cov["evaluations"] = len(hand) + len(auto)
    cov["distinct_nontrivial"] = len(hand) + len({(r["type"], r["trait"]) for r in auto})
    cov["traces_validated_against_impl"] = len(hand) + len(auto)
    cov["disagreements_checked"] = total_violations
    cov["input_distribution"] = fam_counts
    cov["error_codes_observed"] = codes_seen
    cov["struct_table"] = {"definitions": len(table.items), "public": sum(1 for it in table.items if it.public),
                           "explicit_send_sync_impls": sum(len(it.explicit) for it in table.items),
                           "aliases": [a.name for a in table.aliases]}
    cov["model_vs_rustc_agreements"] = len(auto) - disagreements_model
    cov["rule"] = ("every probes/*.rs (expected verdict + error code in its header) and every generated "
                   "assert_send/assert_sync probe (type family x element/source kind) is compiled against the rlib of the "
                   "checkout under test; auto-trait probes are additionally decided by the Lean model over the regenerated "
                   "struct table")
    cov["partial"] = ("Lifetimes, borrow checking, sealing and the unsafe-impl requirement are checked by the probe "
                      "catalogue alone: an unsound change no probe exercises is not seen.")
    for h in hand[:3]:
        samples.append({"probe": h["id"], "rule": h["rule"], "expected": " ".join([h["expect"][0]] + h["expect"][1]),
                        "observed": "compiles" if h["obs"][0] else "rejected " + ",".join(h["obs"][1])})
    for r in auto[:3]:
        samples.append({"probe": r["type"] + ": " + r["trait"], "expected_by_property": r["want"], "model": r["model"],
                        "rustc": "compiles" if r["obs"][0] else "rejected " + ",".join(r["obs"][1])})
    log(f"[C20] probes: {n_hand_files} hand-written + {len(life)} generated lifetime + {len(auto)} generated auto-trait; "
        f"violations={total_violations} "
        f"(model-vs-rustc disagreements {disagreements_model})")
    return {"violations": violations, "coverage": cov, "samples": samples}


# ------------------------------------------------------------------------------------------
# stand-alone replay
# ------------------------------------------------------------------------------------------

def main():
    if len(sys.argv) != 3 or sys.argv[1] != "replay":
        print(__doc__)
        sys.exit(2)
    sys.path.insert(0, ROOT)
    import verif
    path = sys.argv[2]
    verif.build_harness("C20")
    ctx = {"env": verif.ENV, "sh": verif.sh, "root": ROOT, "harness_target_dir": verif.harness_target_dir(), "harness_dir": verif.harness_dir(),
           "MachineryError": verif.MachineryError}
    rlib, deps = locate_rlib(ctx)
    rule, expect = parse_header(path)
    os.makedirs(os.path.join(verif.WORK, "C20", "probes"), exist_ok=True)
    compiled, codes, first = compile_probe(path, rlib, deps, os.path.join(verif.WORK, "C20", "probes"))
    why = judge(expect, compiled, codes)
    print(f"probe {path}\n  rule:     {rule}\n  expected: {' '.join([expect[0]] + expect[1])}\n  observed: "
          f"{'compiles' if compiled else 'rejected ' + ','.join(codes) + ' — ' + first}\n  against:  {verif.REPO}")
    print("  verdict:  " + ("as expected" if why is None else "DIFFERS: " + why))
    sys.exit(0 if why is None else 1)


if __name__ == "__main__":
    main()
