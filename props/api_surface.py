#!/usr/bin/env python3
"""API-surface scan shared by C01 and C13.

Scans src/tensors/{mod,indexing,views,dimensions}.rs of the checkout under test for every `pub fn`
and every `impl Trait for Type` header and classifies each one:

  * driven      — the method name is called somewhere in harness/src/{c01,c13,surface}.rs
                  (for trait impls: the table says which surface route / op goes through it);
  * not driven  — listed in props/api_surface.json with the owner property or the reason;
  * UNLISTED    — neither: a new public function / trait impl nobody decided about.  Reported as a
                  violation `no-failing-input-found` (the check cannot tell whether it is covered).

The list of functions that are not driven by C01/C13 is put into the evidence (`coverage`).
"""
import json
import os
import re

ROOT = os.path.dirname(os.path.dirname(os.path.abspath(__file__)))
FILES = ["src/tensors/mod.rs", "src/tensors/indexing.rs", "src/tensors/views.rs", "src/tensors/dimensions.rs"]
HARNESS = ["harness/src/c01.rs", "harness/src/c13.rs", "harness/src/surface.rs"]
TABLE = os.path.join(ROOT, "props", "api_surface.json")


def strip_comments(text):
    text = re.sub(r"/\*.*?\*/", lambda m: "\n" * m.group(0).count("\n"), text, flags=re.S)
    return re.sub(r"//[^\n]*", "", text)


def normalise_header(h):
    h = h.strip()
    h = re.sub(r"^(unsafe\s+)?impl\s*", "", h)
    if h.startswith("<"):            # drop the impl's own generic parameter list
        depth = 0
        for i, ch in enumerate(h):
            depth += ch == "<"
            depth -= ch == ">"
            if depth == 0:
                h = h[i + 1:]
                break
    h = re.split(r"\bwhere\b|\{", h)[0].strip()
    prev = None
    while prev != h:                 # drop argument lists made of lifetimes / one-letter parameters
        prev = h
        h = re.sub(r"<(\s*('[a-z_]\w*|\b[A-Z]\b|\b[A-Z]\d\b|const [A-Z]: usize|\b\d+\b|&'?\w*\s*(mut\s+)?\b[A-Z]\b|\([A-Z], Index\))\s*,?\s*)+>", "", h)
    return re.sub(r"\s+", " ", h)


def scan(repo):
    fns, impls = [], []
    for rel in FILES:
        path = os.path.join(repo, rel)
        if not os.path.exists(path):
            continue
        text = strip_comments(open(path).read())
        current = None
        lines = text.split("\n")
        i = 0
        while i < len(lines):
            line = lines[i]
            if re.match(r"^(unsafe\s+)?impl\b", line):
                header = line
                j = i
                while "{" not in header and j + 1 < len(lines):
                    j += 1
                    header += " " + lines[j]
                current = normalise_header(header)
                if " for " in current:
                    impls.append((rel, current))
            elif re.match(r"^(pub\s+)?(fn|struct|enum|trait|mod|type|const|macro_rules)\b", line) and not line.startswith("pub fn") and not line.startswith("fn"):
                current = None
            m = re.match(r"^\s*pub\s+(unsafe\s+)?fn\s+(\w+)", line)
            if m:
                owner = current if (line.startswith(" ") and current) else "(free)"
                fns.append((rel, owner, m.group(2)))
            i += 1
    return sorted(set(fns)), sorted(set(impls))


def harness_text():
    return "\n".join(open(os.path.join(ROOT, p)).read() for p in HARNESS if os.path.exists(os.path.join(ROOT, p)))


def classify(repo):
    table = json.load(open(TABLE))
    not_driven = table["not_driven"]          # "file::owner::fn" or "fn" -> reason
    trait_impls = table["trait_impls"]        # "Trait for Type" -> where it is driven / why not
    text = harness_text()
    fns, impls = scan(repo)
    driven, listed, unlisted = [], [], []
    for rel, owner, name in fns:
        key = f"{os.path.basename(rel)}::{owner}::{name}"
        if key in not_driven or name in not_driven:
            listed.append((key, not_driven.get(key, not_driven.get(name))))
        elif re.search(r"[.:]" + re.escape(name) + r"\s*(::<[^>]*>)?\(", text):
            driven.append(key)
        else:
            unlisted.append(key)
    impl_unlisted = [f"{os.path.basename(rel)}::impl {h}" for rel, h in impls if h not in trait_impls]
    impl_not_driven = [(h, trait_impls[h]) for rel, h in impls if h in trait_impls and trait_impls[h].startswith("not driven")]
    return {"driven": driven, "listed": listed, "unlisted": unlisted, "impl_unlisted": impl_unlisted,
            "impl_total": len(impls), "impl_not_driven": impl_not_driven}


def run(ctx):
    c = classify(ctx["repo"])
    violations = []
    for key in c["unlisted"] + c["impl_unlisted"]:
        violations.append({
            "kind": "api-surface", "no_failing_input": True,
            "case": "api-surface " + key,
            "explanation": "A public function / trait impl of the tensor API in the scope of this property is "
                           "neither called by the correspondence harness nor listed in props/api_surface.json "
                           "with the property that drives it or the reason it is out of scope."})
    coverage = {
        "api_surface_pub_fns": len(c["driven"]) + len(c["listed"]) + len(c["unlisted"]),
        "api_surface_driven_by_harness": len(c["driven"]),
        "api_surface_not_driven": [f"{k}  [{why}]" for k, why in c["listed"]],
        "api_surface_trait_impls": c["impl_total"],
        "api_surface_trait_impls_not_driven": [f"{h}  [{why}]" for h, why in c["impl_not_driven"]],
        "api_surface_unlisted": c["unlisted"] + c["impl_unlisted"],
    }
    ctx["log"](f"[{ctx['pid']}] api surface: {len(c['driven'])} pub fns driven, {len(c['listed'])} listed as not driven, "
               f"{len(c['unlisted']) + len(c['impl_unlisted'])} unlisted; {c['impl_total']} trait impls")
    return {"violations": violations, "coverage": coverage, "samples": []}


if __name__ == "__main__":
    import sys
    repo = sys.argv[1] if len(sys.argv) > 1 else "/repo"
    if not os.path.exists(TABLE):
        json.dump({"not_driven": {}, "trait_impls": {}}, open(TABLE, "w"))
    c = classify(repo)
    print("driven", len(c["driven"]))
    print("UNLISTED fns:")
    for k in c["unlisted"]:
        print("  ", k)
    print("UNLISTED impls:")
    for k in c["impl_unlisted"]:
        print("  ", k)
