"""C10 — the monitor part of the check (DESIGN.md §7 C10).

1. Sweep.  Every workload of every other line-protocol property (view compositions, iterator
   prefixes, matrix mutation histories incl. operations that panic followed by use of the
   surviving object, linear algebra and differentiation runs) is executed by the real code with
   the `verif-hooks` monitor armed: each of the six leaf unchecked accessors checks, before the
   access, that the index is inside the container's shape and that shape, stored element count,
   unique names and non-zero lengths agree.  A `VERIF-HOOK` panic (answer `panic(hook)`) or a
   process abort (std's unsafe-precondition checks; a crash) is a concrete failing input: the
   operation sequence of the case is the replay.  After an abort the case that killed the process
   is cut out and the rest of the workload is still run (up to MAX_ABORTS times per workload).
   The evidence lists, per workload, how many unchecked accesses the monitor checked.
   Thorough tier repeats the sweep with a release build of the whole harness (overflow checks
   off), where silent wrap-around would otherwise turn into out-of-bounds reads.
2. Release run of C10's own workload (both tiers).  The workload of harness/src/c10.rs (calls
   expected to panic + use of the survivor, shapes/sizes whose element count overflows) is built
   as the binary `emlv-C10` in the *release* profile (≈20 s cold) and its answers are compared
   with the model's answers of the correspondence run: two defects of the element-count
   validation (#8 for tensors, L-12 for matrices) accept a wrapped product only there.
"""
import os
import subprocess
import sys

sys.path.insert(0, os.path.dirname(os.path.abspath(__file__)))
import _sweep  # noqa: E402

MAX_ABORTS = 4
DISTINCT = [0]


def read_answers(path):
    answers = open(path, encoding="utf-8", errors="replace").read().split("\n")
    if answers and answers[-1] == "":
        answers.pop()
    return answers


def split_answer(line):
    if " ## " in line:
        obs, aux = line.split(" ## ", 1)
        return obs.strip(), aux.strip()
    return line.strip(), ""


def segment_end(ops, k):
    k += 1
    while k < len(ops) and not ops[k].startswith("@"):
        k += 1
    return k


def run_monitored(ctx, pid, ops, wd, label, bin_path, violations):
    """Runs ops with the monitor armed; returns (operations run, accesses checked, monitor failures)."""
    checked = failed = ran = 0
    aborts = 0
    offset_note = ""
    while ops:
        ops_path = os.path.join(wd, f"{pid}.{label}.run{aborts}.ops")
        with open(ops_path, "w") as f:
            f.write("".join(l + "\n" for l in ops))
        out_path = os.path.join(wd, f"{pid}.{label}.out")
        rc, err, hook = _sweep.run_impl(ctx, pid, ops_path, out_path, {}, bin_path)
        answers = read_answers(out_path)
        if hook:
            checked += hook[0]
            failed += hook[1]
        if rc == 0 and len(answers) == len(ops):
            ran += len(ops)
            seen = set()
            for i, a in enumerate(answers):
                if "panic(hook)" in a:
                    s = _sweep.segment_start(ops, i)
                    if s in seen:
                        continue
                    seen.add(s)
                    violations.append(hook_violation(pid, ops[s:i + 1], label, a))
                    if len(seen) >= 3:
                        break
            return ran, checked, failed, hook is not None
        # the process died: find the operation (flush after every answer), report, cut the case out
        rc2, err2, _ = _sweep.run_impl(ctx, pid, ops_path, out_path, {"EMLV_FLUSH": "1"}, bin_path)
        answers = read_answers(out_path)
        k = min(len(answers), len(ops) - 1)
        s = _sweep.segment_start(ops, k)
        violations.append(hook_violation(pid, ops[s:k + 1], label,
                                         f"process died (exit {rc2}){offset_note}: {err2[-300:]}"))
        ran += k
        aborts += 1
        if aborts > MAX_ABORTS:
            break
        ops = ops[:s] + ops[segment_end(ops, k):]
        offset_note = f" [after cutting out {aborts} earlier aborting case(s)]"
    return ran, checked, failed, True


def hook_violation(pid, seg, label, what):
    return {
        "case": f"{pid}: " + " ; ".join(seg)[-600:], "property_workload": pid, "kind": "monitor",
        "ops": seg, "build": label, "answer": what,
        "explanation": "an unchecked element access outside the accessed container's shape (or on a "
                       "container whose shape disagrees with its stored element count) was reached "
                       "through the safe API",
        "replay_argv": ["python3", "props/c10_extra.py", "replay"],
    }


def sweep(ctx, release, label, wd, violations, per_prop, samples):
    total_ops = total_checked = programs = 0
    # every claimed line-protocol property, plus C18's own float / formatting workload (protocol none)
    pids = _sweep.line_protocol_properties(ctx["root"], exclude={"C18"}) + ["C18"]
    for pid in pids:
        ops, _ops_path = _sweep.generate(ctx, pid, ctx["tier"], ctx["seed"], wd)
        if not ops:
            continue
        n_before = len(violations)
        ran, checked, failed, reported = run_monitored(ctx, pid, ops, wd, label, ctx["bin_for"](pid, release),
                                                       violations)
        total_ops += ran
        DISTINCT[0] += len(set(ops))
        programs += sum(1 for l in ops if l.startswith("@"))
        total_checked += checked
        per_prop[f"{pid}/{label}"] = {"operations": ran, "unchecked_accesses_monitored": checked,
                                      "monitor_failures": failed}
        if not reported:
            per_prop[f"{pid}/{label}"]["note"] = "hook counters not reported (feature off?)"
        if len(violations) == n_before and len(samples) < 6 and checked:
            samples.append({"workload": pid, "build": label, "operations": len(ops),
                            "unchecked_accesses_monitored": checked, "first_op": ops[0]})
    return total_ops, total_checked, programs


def own_workload_release(ctx, wd, violations, per_prop, samples):
    """C10's own operations (those of the correspondence run) through the release build, against
    the model's answers."""
    corr = ctx.get("corr")
    if not corr or "ops_list" not in corr:
        return 0, 0
    ops, model = corr["ops_list"], corr["model"]
    bin10 = ctx["bin_for"]("C10", True)
    os.makedirs(wd, exist_ok=True)
    ops_path = os.path.join(wd, "C10.own.ops")
    with open(ops_path, "w") as f:
        f.write("".join(l + "\n" for l in ops))
    out_path = os.path.join(wd, "C10.own.release.out")
    rc, err, hook = _sweep.run_impl(ctx, "C10", ops_path, out_path, {}, bin10)
    answers = read_answers(out_path)
    if rc != 0 or len(answers) != len(ops):
        rc2, err2, _ = _sweep.run_impl(ctx, "C10", ops_path, out_path, {"EMLV_FLUSH": "1"}, bin10)
        answers = read_answers(out_path)
        k = min(len(answers), len(ops) - 1)
        s = _sweep.segment_start(ops, k)
        v = hook_violation("C10", ops[s:k + 1], "release", f"process died (exit {rc2}): {err2[-300:]}")
        v["binary"] = "emlv-C10"
        violations.append(v)
        return len(answers), hook[0] if hook else 0
    seen, n_bad = set(), 0
    for i, (a, m) in enumerate(zip(answers, model)):
        (ao, aa), (mo, ma) = split_answer(a), split_answer(m)
        if ao == mo and aa == ma:
            continue
        s = _sweep.segment_start(ops, i)
        kind = "obs" if ao != mo else "aux"
        if (s, kind) in seen:
            continue
        seen.add((s, kind))
        n_bad += 1
        if n_bad > 4:
            continue
        v = {
            "case": "C10: " + " ; ".join(ops[s:i + 1])[-600:], "property_workload": "C10", "kind": kind,
            "ops": ops[s:i + 1], "build": "release", "binary": "emlv-C10",
            "implementation_answer": a, "model_answer": m,
            "explanation": ("release build (overflow checks off): the implementation's answer differs from the "
                            "answer the property demands (the model's, before `##`)") if kind == "obs" else
                           "release build: only the code-shaped detail after `##` differs from the model",
            "replay_argv": ["python3", "props/c10_extra.py", "replay"],
        }
        if kind == "aux":
            v["no_failing_input"] = True
            v["broken"] = "correspondence stream C10 (release build), first differing operation shown"
        violations.append(v)
    per_prop["C10-own/release"] = {"operations": len(ops), "unchecked_accesses_monitored": hook[0] if hook else 0,
                                   "monitor_failures": hook[1] if hook else None,
                                   "answers_differing_from_model": n_bad}
    if len(samples) < 6:
        j = next((i for i, o in enumerate(ops) if "mflat 9223372036854775809" in o), 0)
        samples.append({"workload": "C10 own, release build", "op": ops[j], "implementation": answers[j],
                        "model": model[j]})
    return len(ops), hook[0] if hook else 0


def unmonitored_raw_accesses(repo):
    """Premise of the monitor: every raw unchecked element access of the crate (slice
    `get_unchecked(_mut)`, `unwrap_unchecked`, raw-pointer reads) sits in one of the leaf accessors
    right behind a `verif_hooks::…_access` call.  Regenerated on every run; a new raw access
    without the monitor in front of it is reported with file:line."""
    import re
    hits = []
    src = os.path.join(repo, "src")
    for base, _d, files in sorted(os.walk(src)):
        for fn in sorted(files):
            if not fn.endswith(".rs") or fn == "verif_hooks.rs":
                continue
            path = os.path.join(base, fn)
            lines = open(path, encoding="utf-8", errors="replace").read().split("\n")
            in_block = False
            for i, raw in enumerate(lines):
                line = raw
                if in_block:
                    if "*/" in line:
                        in_block = False
                    continue
                if "/*" in line and "*/" not in line:
                    in_block = True
                    line = line.split("/*")[0]
                line = line.split("//")[0]
                if re.search(r"\.get_unchecked(_mut)?\(|\.unwrap_unchecked\(|from_raw_parts|\bptr::(read|write|copy)\b", line):
                    before = "\n".join(lines[max(0, i - 12):i])
                    if "verif_hooks::" not in before:
                        hits.append(f"{os.path.relpath(path, repo)}:{i + 1}: {raw.strip()[:100]}")
    return hits


VIEW_MODULE = "EasyMl.Props.C10Views"
VIEW_THEOREMS = ["EasyMl.C10.view_unchecked_inBounds", "EasyMl.C10.view_unchecked_inBounds_matrix"]
ALLOWED_AXIOMS = {"propext", "Classical.choice", "Quot.sound"}


def audit_view_module(ctx):
    """The general view theorems live in a module of their own (see Props/C10Views.lean for why):
    build it and audit the axioms of its theorems, as verif.py does for the registered module."""
    import re
    results = []
    rc, logtxt = ctx["lake_build"]([VIEW_MODULE])
    if rc != 0:
        return [{"name": t, "ok": False, "axioms": [], "why": "lake build " + VIEW_MODULE + " failed"}
                for t in VIEW_THEOREMS], logtxt[-1500:]
    src = os.path.join(ctx["work"], "Audit_C10Views.lean")
    with open(src, "w") as f:
        f.write(f"import {VIEW_MODULE}\n" + "".join(f"#print axioms {t}\n" for t in VIEW_THEOREMS))
    rc, out, err = ctx["sh"](["lake", "env", "lean", src], cwd=ctx["lean"], check=False, timeout=3600)
    flat = re.sub(r"\s+", " ", out + err)
    for t in VIEW_THEOREMS:
        m = re.search(r"'" + re.escape(t) + r"' depends on axioms: \[([^\]]*)\]", flat)
        if m:
            axioms = [a.strip() for a in m.group(1).split(",") if a.strip()]
            bad = [a for a in axioms if a not in ALLOWED_AXIOMS]
            results.append({"name": t, "ok": not bad, "axioms": axioms, "why": "uses axioms " + ",".join(bad) if bad else ""})
        elif re.search(r"'" + re.escape(t) + r"' does not depend on any axioms", flat):
            results.append({"name": t, "ok": True, "axioms": [], "why": ""})
        else:
            results.append({"name": t, "ok": False, "axioms": [], "why": "theorem not found by #print axioms"})
    return results, ""


def run(ctx):
    violations, samples, per_prop = [], [], {}
    DISTINCT[0] = 0
    # all per-property binaries in one cargo invocation (parallel); bin_for() is then a no-op check
    ctx["build_harness"]()
    wd = os.path.join(ctx["work"], "sweep")
    os.makedirs(wd, exist_ok=True)
    own_ops, own_checked = own_workload_release(ctx, wd, violations, per_prop, samples)
    n_ops, n_checked, programs = sweep(ctx, False, "dev", wd, violations, per_prop, samples)
    if ctx["tier"] == "thorough":
        ctx["build_harness"](None, True)
        o2, c2, p2 = sweep(ctx, True, "release", wd, violations, per_prop, samples)
        n_ops += o2
        n_checked += c2
        programs += p2
    n_ops += own_ops
    n_checked += own_checked
    # concrete failing inputs first
    violations.sort(key=lambda v: 1 if v.get("no_failing_input") else 0)
    raw = unmonitored_raw_accesses(ctx["repo"])
    if raw:
        violations.append({"case": "unmonitored raw unchecked access", "kind": "premise", "no_failing_input": True,
                           "broken": "premise of the C10 sweep: every raw unchecked element access of the crate is "
                                     "behind the verif-hooks monitor", "hits": raw[:20]})
    view_audit, view_log = audit_view_module(ctx)
    broken = [r for r in view_audit if not r["ok"]]
    if broken:
        violations.append({"case": "theorem audit of " + VIEW_MODULE, "kind": "theorem", "no_failing_input": True,
                           "broken": [{"theorem": r["name"], "why": r["why"]} for r in broken],
                           "build_log": view_log,
                           "explanation": "These proof obligations are no longer discharged by Lean."})
    cov = {"evaluations": n_ops, "distinct_nontrivial": DISTINCT[0],
           "second_module_theorems": view_audit, "unmonitored_raw_unchecked_accesses": raw, "traces_validated_against_impl": programs,
           "programs": programs, "unchecked_accesses_monitored": n_checked, "monitored_workloads": per_prop}
    return {"violations": violations[:8], "coverage": cov, "samples": samples}


if __name__ == "__main__":
    # replay: python3 props/c10_extra.py replay <replay.json>
    import json
    payload = json.load(open(sys.argv[2]))
    root = os.path.dirname(os.path.dirname(os.path.abspath(__file__)))
    sys.path.insert(0, root)
    import verif
    release = payload.get("build") == "release"
    b = verif.build_harness(payload["property_workload"], release)
    ops = "".join(l + "\n" for l in payload["ops"]).encode()
    e = dict(verif.ENV)
    e["EMLV_FLUSH"] = "1"
    p = subprocess.run([b, "run", payload["property_workload"]], input=ops, stdout=subprocess.PIPE,
                       stderr=subprocess.PIPE, env=e)
    out = p.stdout.decode().split("\n")
    model = None
    if payload.get("model_answer") is not None:
        verif.lake_build(["emlmodel"])
        q = subprocess.run([verif.MODEL_BIN, payload["property_workload"]], input=ops, stdout=subprocess.PIPE)
        model = q.stdout.decode().split("\n")
    bad = p.returncode != 0
    for i, op in enumerate(payload["ops"]):
        a = out[i] if i < len(out) and out[i] else f"<process died rc={p.returncode}>"
        print(op)
        print("    implementation:", a)
        if model is not None:
            m = model[i] if i < len(model) else "<none>"
            differs = a != m
            bad = bad or differs
            print("    model/spec:    ", m, "   <== differs" if differs else "")
        if "panic(hook)" in a:
            bad = True
    sys.exit(1 if bad else 0)
