"""C10 — the monitor part of the check (DESIGN.md §7 C10).

Every workload of every other line-protocol property (view compositions, iterator prefixes,
matrix mutation histories incl. operations that panic followed by use of the surviving object,
linear algebra and differentiation runs) is executed by the real code with the `verif-hooks`
monitor armed: each of the six leaf unchecked accessors checks, before the access, that the
index is inside the container's shape and that shape, stored element count, unique names and
non-zero lengths agree.  A `VERIF-HOOK` panic (answer `panic(hook)`) or a process abort (std's
unsafe-precondition checks; a crash) is a concrete failing input: the operation sequence of the
case is the replay.  Thorough tier repeats the sweep with a release build (overflow checks off),
where silent wrap-around would otherwise turn into out-of-bounds reads.
"""
import os
import sys

sys.path.insert(0, os.path.dirname(os.path.abspath(__file__)))
import _sweep  # noqa: E402


def sweep(ctx, bin_path, label, wd, violations, per_prop, samples):
    total_ops = total_checked = programs = 0
    pids = _sweep.line_protocol_properties(ctx["root"], exclude={"C18"})
    for pid in pids:
        ops, ops_path = _sweep.generate(ctx, pid, ctx["tier"], ctx["seed"], wd)
        if not ops:
            continue
        out_path = os.path.join(wd, f"{pid}.{label}.out")
        rc, err, hook = _sweep.run_impl(ctx, pid, ops_path, out_path, {}, ctx["bin_for"](pid, bin_path == "release"))
        answers = open(out_path, encoding="utf-8", errors="replace").read().split("\n")
        if answers and answers[-1] == "":
            answers.pop()
        bad = None
        if rc != 0 or len(answers) != len(ops):
            rc2, err2, _ = _sweep.run_impl(ctx, pid, ops_path, out_path, {"EMLV_FLUSH": "1"}, ctx["bin_for"](pid, bin_path == "release"))
            answers = open(out_path, encoding="utf-8", errors="replace").read().split("\n")
            if answers and answers[-1] == "":
                answers.pop()
            k = min(len(answers), len(ops) - 1)
            bad = (k, f"process died (exit {rc2}): {err2[-300:]}")
        else:
            for i, a in enumerate(answers):
                if "panic(hook)" in a:
                    bad = (i, a)
                    break
        total_ops += len(ops)
        programs += sum(1 for l in ops if l.startswith("@"))
        checked = hook[0] if hook else 0
        total_checked += checked
        per_prop[f"{pid}/{label}"] = {"operations": len(ops), "unchecked_accesses_monitored": checked,
                                      "monitor_failures": hook[1] if hook else None}
        if hook is None and bad is None:
            per_prop[f"{pid}/{label}"]["note"] = "hook counters not reported (feature off?)"
        if bad:
            k, what = bad
            s = _sweep.segment_start(ops, k)
            violations.append({
                "case": f"{pid}: " + " ; ".join(ops[s:k + 1])[-600:], "property_workload": pid,
                "ops": ops[s:k + 1], "build": label, "answer": what,
                "explanation": "an unchecked element access outside the accessed container's shape (or on a "
                               "container whose shape disagrees with its stored element count) was reached "
                               "through the safe API",
                "replay_argv": ["python3", "props/c10_extra.py", "replay"],
            })
        elif len(samples) < 6 and checked:
            samples.append({"workload": pid, "build": label, "operations": len(ops),
                            "unchecked_accesses_monitored": checked, "first_op": ops[0]})
    return total_ops, total_checked, programs


def run(ctx):
    violations, samples, per_prop = [], [], {}
    wd = os.path.join(ctx["work"], "sweep")
    n_ops, n_checked, programs = sweep(ctx, "dev", "dev", wd, violations, per_prop, samples)
    if ctx["tier"] == "thorough":
        o2, c2, p2 = sweep(ctx, "release", "release", wd, violations, per_prop, samples)
        n_ops += o2
        n_checked += c2
        programs += p2
    cov = {"evaluations": n_ops, "distinct_nontrivial": n_ops, "traces_validated_against_impl": programs,
           "programs": programs, "unchecked_accesses_monitored": n_checked, "monitored_workloads": per_prop}
    return {"violations": violations, "coverage": cov, "samples": samples}


if __name__ == "__main__":
    import json
    import subprocess
    payload = json.load(open(sys.argv[2]))
    root = os.path.dirname(os.path.dirname(os.path.abspath(__file__)))
    sys.path.insert(0, root)
    import verif
    b = verif.build_harness(payload["property_workload"], release=(payload.get("build") == "release"))
    ops = "".join(l + "\n" for l in payload["ops"]).encode()
    e = dict(verif.ENV)
    e["EMLV_FLUSH"] = "1"
    p = subprocess.run([b, "run", payload["property_workload"]], input=ops, stdout=subprocess.PIPE,
                       stderr=subprocess.PIPE, env=e)
    out = p.stdout.decode().split("\n")
    for i, op in enumerate(payload["ops"]):
        print(op, "->", out[i] if i < len(out) and out[i] else f"<process died rc={p.returncode}>")
    bad = p.returncode != 0 or any("panic(hook)" in a for a in out)
    sys.exit(1 if bad else 0)
