#!/usr/bin/env python3
"""C04 — API-surface step: every public function / trait impl / derive of the scalar differentiation
module must be listed in props/api_surface_differentiation.json, and the items this check owns
must have been driven by this run's workload (see props/_api_surface.py)."""
import os
import sys

sys.path.insert(0, os.path.dirname(os.path.abspath(__file__)))
import _api_surface  # noqa: E402


def run(ctx):
    return _api_surface.run(ctx, "C04")
