"""C18 — determinism: the cross-execution part of the check (DESIGN.md §7 C18).

1. Source scan (regenerated on every run): the crate must contain no hidden state or
   environment/address dependence (static mut, thread_local!, lazy/once cells, atomics, hash
   containers, threads, clocks, environment, {:p}, pointer comparison other than the one
   equality in `same_list`).  A new hit means the premise of the model-level determinism
   theorems is no longer shown to hold (reported with file:line, no-failing-input-found).
2. The generated workloads of every other line-protocol property are executed by the real code
   in several ways — main thread, spawned thread, perturbed heap (blocks of pseudo-random sizes
   allocated and freed between operations), cases in reverse order, and a second process — and
   the complete answer streams (numbers incl. exact field elements and float bit patterns where
   a driver prints them, shapes, iteration orders, tape positions, error values, formatted
   output) must be byte-identical.  A difference is a concrete failing input: the case and the
   two execution modes are the replay.
3. C18's own workload (harness/src/c18.rs: f64 bit patterns of determinants, inverses, products,
   statistics, decompositions, densities and draws, reverse/forward derivatives with tape
   positions, Display/Debug output of tensors, views, matrices and error values) goes through the
   same modes; in addition, within one execution, every result computed twice must be identical
   (`bits=… again=…`), the same expression recorded later on a longer tape must give the same
   values at shifted positions, and cases that differ only in where the dimension-name strings
   are stored (literals, separate heap copies, slices of one static string) must agree.
"""
import hashlib
import json
import os
import re
import sys

sys.path.insert(0, os.path.dirname(os.path.abspath(__file__)))
import _sweep  # noqa: E402

PATTERNS = [
    (r"\bstatic\s+mut\b", "static mut"),
    (r"\bstatic\s+(ref\s+)?[A-Za-z_][A-Za-z0-9_]*\s*:", "static item"),
    (r"\b(Mutex|RwLock|Condvar|OnceLock|UnsafeCell|SyncUnsafeCell)\b|\bsync::Once\b|\bOnce::new\b",
     "lock / interior mutability usable from a static"),
    (r"\b(Cell|RefCell)\b", "interior mutability (Cell / RefCell)"),
    (r"\bthread_local!", "thread_local!"),
    (r"\blazy_static\b|\bOnceCell\b|\bOnceLock\b|\bLazyLock\b|\bLazyCell\b", "lazy/once cell"),
    (r"\bAtomic[A-Z]\w*", "atomic"),
    (r"\bHashMap\b|\bHashSet\b|\bRandomState\b|\bDefaultHasher\b", "hash container / hasher"),
    (r"\bstd::thread\b|\bthread::spawn\b", "threads"),
    (r"\bstd::time\b|\bInstant\b|\bSystemTime\b", "clock"),
    (r"\bstd::env\b|\benv::var\b", "environment"),
    (r"\{:p\}", "pointer formatting"),
    (r"\bptr::eq\b|\*const\b|\*mut\b|\.as_ptr\(\)|\.as_mut_ptr\(\)|\baddr\(\)|\bNonNull\b", "pointer value"),
    (r"\brand::|\bthread_rng\b", "random source"),
    (r"\*const\s+[A-Za-z_(\[]|\*mut\s+[A-Za-z_(\[]|\bNonNull\b", "raw pointer type"),
]
# (file suffix, pattern label, regex the line must match) — the reviewed, allowed uses
ALLOW = [
    ("src/differentiation/record_operations.rs", "pointer value", r"std::ptr::eq\(list_a, list_b\)"),
    # the per-tape RefCell is a field of an explicit input (the WengertList the caller passes around)
    ("src/differentiation.rs", "interior mutability (Cell / RefCell)",
     r"^\s*use std::cell::RefCell;$|^\s*operations: RefCell<Vec<Operation<T>>>,$|^\s*operations: RefCell::new\("),
    ("src/verif_hooks.rs", None, r".*"),          # feature-gated verification hook module
    (None, "pointer value", r"cfg\(feature = \"verif-hooks\"\)|verif_hooks::"),
]


def strip_comments(text):
    out, i, n, depth = [], 0, len(text), 0
    in_str = False
    while i < n:
        c = text[i]
        if depth == 0 and not in_str and text.startswith("//", i):
            while i < n and text[i] != "\n":
                i += 1
            continue
        if not in_str and text.startswith("/*", i):
            depth += 1
            i += 2
            continue
        if depth > 0:
            if text.startswith("*/", i):
                depth -= 1
                i += 2
            else:
                if c == "\n":
                    out.append("\n")
                i += 1
            continue
        if c == '"' and (i == 0 or text[i - 1] != "\\") and (i == 0 or text[i - 1] != "'"):
            in_str = not in_str
        out.append(c)
        i += 1
    return "".join(out)


def hidden_state_scan(repo):
    hits = []
    src = os.path.join(repo, "src")
    for base, _d, files in sorted(os.walk(src)):
        for fn in sorted(files):
            if not fn.endswith(".rs"):
                continue
            path = os.path.join(base, fn)
            rel = os.path.relpath(path, repo)
            raw_lines = open(path, encoding="utf-8", errors="replace").read().split("\n")
            code = strip_comments("\n".join(raw_lines)).split("\n")
            in_hook_stmt = 0
            for ln, line in enumerate(code, 1):
                # statements guarded by #[cfg(feature = "verif-hooks")] are the hook's own calls
                if 'cfg(feature = "verif-hooks")' in line:
                    in_hook_stmt = 8
                    continue
                if in_hook_stmt > 0:
                    in_hook_stmt -= 1
                    if ";" in line or line.strip() == "}":
                        in_hook_stmt = 0
                    continue
                for rx, label in PATTERNS:
                    if re.search(rx, line):
                        allowed = False
                        for suf, lab, arx in ALLOW:
                            if (suf is None or rel.endswith(suf)) and (lab is None or lab == label) \
                                    and re.search(arx, line):
                                allowed = True
                        if not allowed:
                            hits.append(f"{rel}:{ln}: {label}: {line.strip()[:100]}")
    return hits



def own_checks(ops, answers):
    """Checks inside one execution of C18's own workload.  Returns a list of (line, what)."""
    bad = []
    by_case = {}
    for i, (op, a) in enumerate(zip(ops, answers)):
        toks = op.split()
        if a.startswith("panic(") or a == "bad-op":
            bad.append((i, "the workload case did not complete: " + a))
            continue
        if toks[1] in ("det", "inverse", "length", "qr", "alloc"):
            ms = re.findall(r"bits=(\S+) again=(\S+)", a)
            if not ms or any(x != y for x, y in ms):
                bad.append((i, "the same computation repeated in the same process (on buffers at other "
                               "addresses / on an equal object with another allocation history) gave "
                               "different answers"))
        elif toks[1] == "naneq":
            if not re.fullmatch(r"nan@\d+ f+", a):
                bad.append((i, "a container holding a NaN compared equal (to itself or to an equal copy)"))
        elif toks[1] == "crosslist":
            m = re.fullmatch(r"same=(\d+) other_same_thread=(\d+)/(\d+) cross_thread=(\d+)/(\d+)", a)
            k = int(toks[2])
            if not m or int(m.group(1)) != 3 * k or m.group(2) != m.group(3) or m.group(4) != m.group(5):
                bad.append((i, "operations across different WengertLists were not all refused (lists created "
                               "on different threads are treated like one list), or a list refused itself"))
        elif toks[1] == "autodiff":
            parts = [p.strip() for p in a.split("|")]
            if len(parts) == 3:
                v1 = re.sub(r" pos=\S+", "", parts[0])
                v2 = re.sub(r" pos=\S+", "", parts[1])
                p1 = re.search(r"pos=(\d+),(\d+),(\d+)", parts[0])
                p2 = re.search(r"pos=(\d+),(\d+),(\d+)", parts[1])
                shifts = {int(b) - int(a_) for a_, b in zip(p1.groups(), p2.groups())} if p1 and p2 else set()
                if v1 != v2 or len(shifts) != 1:
                    bad.append((i, "the same expression recorded after earlier entries gave different values "
                                   "or positions that are not a uniform shift"))
        elif toks[1] == "names":
            key = " ".join(toks[:2] + toks[3:])
            by_case.setdefault(key, []).append((i, toks[2], a))
    for key, group in by_case.items():
        if len({a for _i, _s, a in group}) > 1:
            i = group[-1][0]
            bad.append((i, "answers depend on where the dimension-name strings are stored: "
                        + ", ".join(f"{s}" for _i, s, _a in group)))
    return bad


MODES = [
    ("main-thread", {}),
    ("spawned-thread+perturbed-heap", {"EMLV_THREAD": "1", "EMLV_PERTURB": "11"}),
    ("reverse-case-order+perturbed-heap", {"EMLV_REVERSE": "1", "EMLV_PERTURB": "29"}),
    ("second-process", {}),
]


# Operations whose answer reports the HARNESS's own bookkeeping (which API routes the cases
# executed so far in this process have reached), not a result of the library: their answers depend
# on the order of the cases by construction and are not compared between execution modes.
BOOKKEEPING_OPS = ("api-report", "api_stats", "static_ops")


def comparable_lines(path, ops):
    lines = open(path, encoding="utf-8", errors="replace").read().split("\n")
    for i, op in enumerate(ops):
        if i < len(lines) and op.split(" ", 1)[0] in BOOKKEEPING_OPS:
            lines[i] = "(harness bookkeeping, not compared)"
    return lines


def digest(path, ops=None):
    h = hashlib.sha256()
    if ops is None:
        with open(path, "rb") as f:
            h.update(f.read())
    else:
        h.update("\n".join(comparable_lines(path, ops)).encode("utf-8", errors="replace"))
    return h.hexdigest()


def run(ctx):
    violations, samples = [], []
    cov = {}
    # all per-property binaries in one cargo invocation (parallel); bin_for() is then a no-op check
    ctx["build_harness"]()
    hits = hidden_state_scan(ctx["repo"])
    cov["hidden_state_scan_hits"] = hits
    if hits:
        violations.append({"case": "hidden-state scan", "no_failing_input": True,
                           "broken": "premise of EasyMl.C18 determinism theorems: the crate has no hidden "
                                     "state / address / environment dependence",
                           "hits": hits[:20]})
    wd = os.path.join(ctx["work"], "sweep")
    pids = _sweep.line_protocol_properties(ctx["root"], exclude={"C18"}) + ["C18"]
    total_ops, total_runs, programs = 0, 0, 0
    float_lines = 0
    distinct_ops = 0
    per_prop = {}
    for pid in pids:
        ops, ops_path = _sweep.generate(ctx, pid, ctx["tier"], ctx["seed"], wd)
        if not ops:
            continue
        outs = []
        for name, env in MODES:
            out_path = os.path.join(wd, f"{pid}.{name}.out")
            rc, err, _hook = _sweep.run_impl(ctx, pid, ops_path, out_path, env)
            outs.append((name, out_path, rc))
            total_runs += 1
        total_ops += len(ops)
        distinct_ops += len(set(ops))
        programs += sum(1 for l in ops if l.startswith("@"))
        base_name, base_path, base_rc = outs[0]
        d0 = digest(base_path, ops)
        per_prop[pid] = {"operations": len(ops), "digest": d0[:16], "modes": len(outs)}
        base_lines = comparable_lines(base_path, ops)
        float_lines += sum(1 for l in base_lines if re.search(r"\b[0-9a-f]{16}\b|\bbits\b|to_bits|f64", l))
        if pid == "C18":
            # the text of Display for integer tensors is tied to the Lean model of format_view
            fm = [(i, o) for i, o in enumerate(ops) if o.startswith("@ fmtint ")]
            if fm:
                import subprocess
                q = subprocess.run([ctx["model_bin"], "C18"], input="".join(o + "\n" for _i, o in fm).encode(),
                                   stdout=subprocess.PIPE, stderr=subprocess.PIPE)
                model = q.stdout.decode().split("\n")
                if q.returncode != 0 or len(model) < len(fm):
                    raise ctx["MachineryError"]("model driver failed on C18 fmtint lines: " + q.stderr.decode()[-500:])
                bad_fm = [(i, o, model[j]) for j, (i, o) in enumerate(fm) if base_lines[i] != model[j]]
                cov["format_lines_compared_with_model"] = len(fm)
                for i, o, m in bad_fm[:3]:
                    violations.append({
                        "case": f"C18: {o}", "property_workload": "C18", "ops": [o], "format_model": True,
                        "implementation_answer": base_lines[i][:1500], "model_answer": m[:1500],
                        "explanation": "the text Display produces for this integer tensor differs from the "
                                       "Lean model of format_view (Model/Display.lean)",
                        "replay_argv": ["python3", "props/c18_extra.py", "replay"],
                    })
            for k, what in own_checks(ops, base_lines)[:3]:
                toks = ops[k].split()
                group = [o for o in ops if toks[1] == "names" and o.split()[1] == "names"
                         and o.split()[3:] == toks[3:]] or [ops[k]]
                violations.append({
                    "case": f"C18: {ops[k]}", "property_workload": "C18", "ops": group, "own_check": True,
                    "mode_a": base_name, "mode_b": base_name, "answer_a": base_lines[k][:600],
                    "explanation": what, "replay_argv": ["python3", "props/c18_extra.py", "replay"],
                })
        for name, path, rc in outs[1:]:
            if digest(path, ops) == d0 and rc == base_rc:
                continue
            other = comparable_lines(path, ops)
            k = next((i for i in range(min(len(base_lines), len(other))) if base_lines[i] != other[i]),
                     min(len(base_lines), len(other)))
            k = min(k, len(ops) - 1)
            s = _sweep.segment_start(ops, k)
            violations.append({
                "case": f"{pid}: {ops[s]} … {ops[k]}", "property_workload": pid,
                "ops": ops[s:k + 1], "mode_a": base_name, "mode_b": name,
                "answer_a": base_lines[k] if k < len(base_lines) else None,
                "answer_b": other[k] if k < len(other) else None,
                "explanation": "the same operations gave different answers in two execution modes",
                "replay_argv": ["python3", "props/c18_extra.py", "replay"],
            })
            break
        if len(samples) < 6:
            samples.append({"workload": pid, "operations": len(ops), "sha256": d0[:16],
                            "first_op": ops[0], "first_answer": base_lines[0] if base_lines else None})
    cov["programs"] = max(programs, 1)
    cov["disagreements_checked"] = total_runs
    cov["evaluations"] = total_ops * len(MODES)
    cov["distinct_nontrivial"] = distinct_ops
    cov["rule"] = ("every generated operation line of every line-protocol property (and of C18's own float / "
                   "formatting workload) executed in each execution mode; distinct = distinct operation lines "
                   "per workload; programs = independent cases (`@` segments); disagreements_checked = "
                   "(workload, mode) executions whose complete answer stream was compared with the main-thread one")
    cov["execution_modes"] = [m[0] for m in MODES]
    cov["answer_lines_with_float_bit_patterns"] = float_lines
    cov["workloads"] = per_prop
    cov["cannot_exhibit"] = ("dependence on address-space layout that happens not to vary across these "
                             "executions; differences between machines / libm versions")
    return {"violations": violations, "coverage": cov, "samples": samples}


if __name__ == "__main__":
    # replay: python3 props/c18_extra.py replay <replay.json>  (re-runs the case in both modes)
    import subprocess
    payload = json.load(open(sys.argv[2]))
    root = os.path.dirname(os.path.dirname(os.path.abspath(__file__)))
    sys.path.insert(0, root)
    import verif
    b = verif.build_harness(payload["property_workload"])
    ops = "".join(l + "\n" for l in payload["ops"]).encode()
    if payload.get("format_model"):
        p = subprocess.run([b, "run", "C18"], input=ops, stdout=subprocess.PIPE, env=dict(verif.ENV))
        verif.lake_build(["emlmodel"])
        q = subprocess.run([verif.MODEL_BIN, "C18"], input=ops, stdout=subprocess.PIPE)
        a, m = p.stdout.decode().split("\n")[0], q.stdout.decode().split("\n")[0]
        print(payload["ops"][0], "\n  implementation:", a, "\n  model:         ", m)
        sys.exit(0 if a == m else 1)
    if payload.get("own_check"):
        p = subprocess.run([b, "run", "C18"], input=ops, stdout=subprocess.PIPE, env=dict(verif.ENV))
        answers = p.stdout.decode().split("\n")
        for o, a in zip(payload["ops"], answers):
            print(o, "->", a[:400])
        bad = own_checks(payload["ops"], answers[:len(payload["ops"])])
        for k, what in bad:
            print("FAILS:", payload["ops"][k], "—", what)
        sys.exit(1 if bad else 0)
    res = {}
    for name, env in MODES:
        if name in (payload["mode_a"], payload["mode_b"]):
            e = dict(verif.ENV)
            e.update(env)
            p = subprocess.run([b, "run", payload["property_workload"]], input=ops, stdout=subprocess.PIPE, env=e)
            res[name] = p.stdout.decode()
            print(f"--- {name}\n{res[name]}")
    vals = list(res.values())
    sys.exit(0 if len(vals) == 2 and vals[0] == vals[1] else 1)
