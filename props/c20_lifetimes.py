"""C20 — generated lifetime-relation probes for the record / record-container API.

The documented contract (doc comments of `Record`, `WengertList`, `RecordContainer`, the
`TensorAccess` impls over record tensors and the `AsRecords` iterators): whatever these entry
points hand out — records, record containers, record iterators' items, error values — is a *copy*
tied to the tape lifetime `'a` only.  It does not borrow the record / container / access it was
obtained from (so it may be returned from a function that only borrowed the container, kept while
the container is mutated, replaced or dropped), and it cannot outlive the tape.

From the table ENTRIES (entry point × receiver kind) two programs are generated per row:

  * escapes-borrow (must compile):   fn probe<'a>(c: <receiver>, …) -> <result with 'a> { <call> }
    type-checks only if the result is tied to `'a` and not to the (anonymous, shorter) borrow of
    the receiver;
  * outlives-tape (must not compile, E0597): the result is used after the tape's block has ended.

plus hand-picked round trips (collect, then mutate / replace / drop the container).

`coverage(repo)` scans the sources for `pub fn`s of these modules whose result type carries a tape
lifetime and reports the ones no row of the table mentions: a new entry point must be added to the
table before the check is quiet again.
"""
import os
import re
import sys

ROOT = os.path.dirname(os.path.dirname(os.path.abspath(__file__)))
sys.path.insert(0, os.path.join(ROOT, "tools"))
import gen_structs  # noqa: E402

PRELUDE = """#![allow(warnings)]
use easy_ml::differentiation::iterators::{AsRecords, InconsistentHistory, InvalidRecordIteratorError};
use easy_ml::differentiation::{Derivatives, Record, RecordContainer, RecordMatrix, RecordTensor, WengertList};
use easy_ml::matrices::views::{MatrixRange, MatrixView};
use easy_ml::matrices::Matrix;
use easy_ml::numeric::extra::{Cos, Exp, Ln, Pow, Sin, Sqrt};
use easy_ml::tensors::indexing::TensorAccess;
use easy_ml::tensors::views::{TensorRange, TensorRename, TensorView};
use easy_ml::tensors::{Dimension, Tensor};
type R<'a> = Record<'a, f64>;
type RT<'a> = RecordTensor<'a, f64, Tensor<(f64, usize), 2>, 2>;
type RM<'a> = RecordMatrix<'a, f64, Matrix<(f64, usize)>>;
type RT0<'a> = RecordTensor<'a, f64, Tensor<(f64, usize), 0>, 0>;
type Tape = WengertList<f64>;
fn mk_r<'a>(list: &'a Tape) -> R<'a> {
    Record::variable(2.0, list)
}
fn mk_rt<'a>(list: &'a Tape) -> RT<'a> {
    RecordTensor::variables(list, Tensor::from([("r", 2), ("c", 2)], vec![1.0, 2.0, 3.0, 4.0]))
}
fn mk_rt0<'a>(list: &'a Tape) -> RT0<'a> {
    RecordTensor::variables(list, Tensor::from([], vec![3.0]))
}
fn mk_rm<'a>(list: &'a Tape) -> RM<'a> {
    RecordMatrix::variables(list, Matrix::from(vec![vec![1.0, 2.0], vec![3.0, 4.0]]))
}
"""

KIND = {"R": ("R<'a>", "mk_r"), "RT": ("RT<'a>", "mk_rt"), "RM": ("RM<'a>", "mk_rm"), "RT0": ("RT0<'a>", "mk_rt0")}
RECV = {"s": ("&{C}", "&owner"), "m": ("&mut {C}", "&mut owner"), "o": ("{C}", "owner")}

ENTRIES = []


def entry(name, kind, call, result, recv="smo", covers=(), tape=True, doc="", call_o=None):
    """`call` is an expression over `c` (the receiver), `d` (a second `&C<'a>`), `list`
    (`&'a Tape`); `result` the documented result type, mentioning `'a`."""
    ENTRIES.append({"name": name, "kind": kind, "call": call, "result": result, "recv": recv,
                    "covers": list(covers), "tape": tape, "doc": doc, "call_o": call_o})


D = "src/differentiation.rs"
M = "src/differentiation/container_record/mod.rs"
I = "src/differentiation/container_record/iterators.rs"
X = "src/tensors/indexing.rs"
O = "src/differentiation/record_operations.rs"

# ---- Record / WengertList ---------------------------------------------------------------------
entry("Record::variable", "R", "Record::variable(1.0, list)", "R<'a>", recv="s", covers=[(D, "variable")])
entry("WengertList::variable", "R", "list.variable(1.0)", "R<'a>", recv="s", covers=[(D, "variable")])
entry("Record::constant", "R", "Record::constant(1.0)", "Record<'static, f64>", recv="s", covers=[(D, "constant")], tape=False)
entry("Record::from_existing", "R", "Record::from_existing((1.0, 0), Some(list))", "R<'a>", recv="s",
      covers=[(D, "from_existing")])
entry("Record::from_existing(c.history())", "R", "Record::from_existing((c.number, c.index), c.history())", "R<'a>",
      covers=[(D, "from_existing"), (D, "history")])
entry("Record::history", "R", "c.history()", "Option<&'a Tape>", covers=[(D, "history")])
entry("Record::unary", "R", "c.unary(|x| x.tanh(), |x| 1.0 / (x.cosh() * x.cosh()))", "R<'a>", covers=[(D, "unary")],
      doc="`Creates a new Record from a reference to an existing Record`")
entry("Record::binary", "R", "c.binary(d, |x, y| x.hypot(y), |x, y| x / x.hypot(y), |x, y| y / x.hypot(y))", "R<'a>",
      covers=[(D, "binary")])
entry("Record::do_reset", "R", "Record::do_reset(c.clone())", "R<'a>", covers=[(D, "do_reset")])
entry("Record + Record", "R", "c.clone() + d", "R<'a>")
entry("&Record - &Record", "R", "&*c - d", "R<'a>", call_o="&c - d")
entry("&Record * f64", "R", "&*c * 2.0", "R<'a>", call_o="&c * 2.0")
entry("-&Record", "R", "-&*c", "R<'a>", call_o="-&c")
entry("Record::sin", "R", "(&*c).sin()", "R<'a>", call_o="(&c).sin()")
entry("Record::pow", "R", "(&*c).pow(d)", "R<'a>", call_o="(&c).pow(d)")
entry("Iterator::sum of records", "R", "[c.clone(), d.clone()].into_iter().sum::<R<'a>>()", "R<'a>")

# ---- RecordTensor ---------------------------------------------------------------------------------
entry("RecordTensor::variables", "RT", "RecordTensor::variables(list, Tensor::from([(\"r\", 1), (\"c\", 1)], vec![1.0]))",
      "RT<'a>", recv="s", covers=[(M, "variables")])
entry("RecordTensor::constants", "RT", "RecordTensor::constants(Tensor::from([(\"r\", 1), (\"c\", 1)], vec![1.0]))",
      "RecordTensor<'static, f64, Tensor<(f64, usize), 2>, 2>", recv="s", covers=[(M, "constants")], tape=False)
entry("RecordTensor::from_existing", "RT",
      "RecordTensor::from_existing(c.history(), TensorView::from(c.view().map(|x| x)))", "RT<'a>",
      covers=[(M, "from_existing"), (M, "history")])
entry("RecordTensor::history", "RT", "c.history()", "Option<&'a Tape>", covers=[(M, "history")])
for acc, accname in [("c.index()", "index"), ("c.index_by([\"c\", \"r\"])", "index_by")]:
    entry(f"RecordTensor::{accname}().get_as_record", "RT", f"{acc}.get_as_record([0, 0])", "R<'a>",
          covers=[(X, "get_as_record"), (M, accname)])
    entry(f"RecordTensor::{accname}().try_get_as_record", "RT", f"{acc}.try_get_as_record([0, 0])", "Option<R<'a>>",
          covers=[(X, "try_get_as_record"), (M, accname)])
# the three TensorAccess impls: source &RecordTensor, &mut RecordTensor, owned RecordTensor
entry("TensorAccess::from(c).get_as_record", "RT", "TensorAccess::from(c, [\"c\", \"r\"]).get_as_record([0, 0])", "R<'a>",
      covers=[(X, "get_as_record")])
entry("TensorAccess::from(c).try_get_as_record", "RT", "TensorAccess::from(c, [\"c\", \"r\"]).try_get_as_record([0, 0])",
      "Option<R<'a>>", covers=[(X, "try_get_as_record")])
entry("RecordTensor::iter_as_records.collect", "RT", "c.iter_as_records().collect()", "Vec<R<'a>>",
      covers=[(M, "iter_as_records")])
entry("RecordTensor::iter_as_records.with_index", "RT", "c.iter_as_records().with_index().map(|(_, r)| r).collect()",
      "Vec<R<'a>>", covers=[(M, "iter_as_records"), (I, "with_index")])
entry("RecordTensor::iter_as_records.next", "RT", "c.iter_as_records().next()", "Option<R<'a>>", covers=[(M, "iter_as_records")])
entry("RecordTensor::from_iter", "RT", "RecordTensor::from_iter(c.shape(), c.iter_as_records().map(|r| r * 2.0)).unwrap()",
      "RT<'a>", covers=[(I, "from_iter"), (M, "iter_as_records")])
entry("RecordTensor::from_iter error", "RT",
      "RecordTensor::from_iter([(\"r\", 9), (\"c\", 9)], c.iter_as_records()).err()",
      "Option<InvalidRecordIteratorError<'a, f64, 2>>", covers=[(I, "from_iter")])
entry("RecordTensor::from_iters", "RT",
      "{ let [a, _b]: [Result<RT<'a>, _>; 2] = RecordTensor::from_iters(c.shape(), c.iter_as_records().map(|r| [r, r + 1.0])); a.unwrap() }",
      "RT<'a>", covers=[(I, "from_iters")])
entry("RecordTensor::unary", "RT", "c.unary(|x| x * 2.0, |_| 2.0)", "RT<'a>", covers=[(M, "unary")])
entry("RecordTensor::binary", "RT", "c.binary(d, |x, y| x * y, |_, y| y, |x, _| x)", "RT<'a>", covers=[(M, "binary")])
entry("RecordTensor::map", "RT", "c.map(|r| r * 2.0)", "Result<RT<'a>, InconsistentHistory<'a, f64>>", covers=[(M, "map")])
entry("RecordTensor::map_with_index", "RT", "c.map_with_index(|_, r| r * 2.0)",
      "Result<RT<'a>, InconsistentHistory<'a, f64>>", covers=[(M, "map_with_index")])
entry("RecordTensor::map_mut", "RT", "{ let mut t = c.map(|r| r).unwrap(); t.map_mut(|r| r * 2.0) }",
      "Result<(), InconsistentHistory<'a, f64>>", covers=[(M, "map_mut")])
entry("RecordTensor::map_mut_with_index", "RT", "{ let mut t = c.map(|r| r).unwrap(); t.map_mut_with_index(|_, r| r * 2.0) }",
      "Result<(), InconsistentHistory<'a, f64>>", covers=[(M, "map_mut_with_index")])
entry("RecordTensor::elementwise_multiply", "RT", "c.elementwise_multiply(d)", "RT<'a>", covers=[(M, "elementwise_multiply")])
entry("RecordTensor::elementwise_divide", "RT", "c.elementwise_divide(d)", "RT<'a>", covers=[(M, "elementwise_divide")])
entry("RecordTensor::do_reset", "RT", "RecordTensor::do_reset(c.map(|r| r).unwrap())", "RT<'a>", covers=[(M, "do_reset")])
entry("RecordTensor::do_unary_assign", "RT", "c.map(|r| r).unwrap().do_unary_assign(|x| x * 2.0, |_| 2.0)", "RT<'a>",
      covers=[(M, "do_unary_assign")])
entry("RecordTensor::do_binary_left_assign", "RT",
      "c.map(|r| r).unwrap().do_binary_left_assign(d, |x, y| x * y, |_, y| y, |x, _| x)", "RT<'a>",
      covers=[(M, "do_binary_left_assign")])
entry("RecordTensor::do_binary_right_assign", "RT",
      "c.do_binary_right_assign(d.map(|r| r).unwrap(), |x, y| x * y, |_, y| y, |x, _| x)", "RT<'a>",
      covers=[(M, "do_binary_right_assign")])
entry("RecordTensor::rename_view", "RT", "c.map(|r| r).unwrap().rename_view([\"x\", \"y\"])",
      "RecordTensor<'a, f64, TensorRename<(f64, usize), Tensor<(f64, usize), 2>, 2>, 2>", covers=[(M, "rename_view")])
entry("&RecordTensor + &RecordTensor", "RT", "&*c + d", "RT<'a>", call_o="&c + d")
entry("RecordTensor * f64", "RT", "&*c * 2.0", "RT<'a>", call_o="&c * 2.0")
entry("AsRecords::from_tensor", "RT", "AsRecords::from_tensor(&*c).collect()", "Vec<R<'a>>", call_o="AsRecords::from_tensor(&c).collect()",
      covers=[(I, "from_tensor")])
entry("AsRecords::from", "RT", "AsRecords::from(c.history(), c.view().iter()).collect()", "Vec<R<'a>>", covers=[(I, "from")])
entry("AsRecords::from_with_index", "RT",
      "AsRecords::from_with_index(c.history(), std::iter::empty::<((), (f64, usize))>())",
      "AsRecords<'a, std::iter::Empty<((), (f64, usize))>, f64>",
      covers=[(I, "from_with_index")])

# ---- RecordMatrix ---------------------------------------------------------------------------------
entry("RecordMatrix::variables", "RM", "RecordMatrix::variables(list, Matrix::from(vec![vec![1.0]]))", "RM<'a>", recv="s",
      covers=[(M, "variables")])
entry("RecordMatrix::constants", "RM", "RecordMatrix::constants(Matrix::from(vec![vec![1.0]]))",
      "RecordMatrix<'static, f64, Matrix<(f64, usize)>>", recv="s", covers=[(M, "constants")], tape=False)
entry("RecordMatrix::from_existing", "RM",
      "RecordMatrix::from_existing(c.history(), MatrixView::from(c.view().map(|x| x)))", "RM<'a>",
      covers=[(M, "from_existing"), (M, "history")])
entry("RecordMatrix::history", "RM", "c.history()", "Option<&'a Tape>", covers=[(M, "history")])
entry("RecordMatrix::get_as_record", "RM", "c.get_as_record(0, 0)", "R<'a>", covers=[(M, "get_as_record")])
entry("RecordMatrix::try_get_as_record", "RM", "c.try_get_as_record(0, 0)", "Option<R<'a>>", covers=[(M, "try_get_as_record")])
for it in ["iter_row_major_as_records", "iter_column_major_as_records"]:
    entry(f"RecordMatrix::{it}.collect", "RM", f"c.{it}().collect()", "Vec<R<'a>>", covers=[(M, it)])
    entry(f"RecordMatrix::{it}.with_index", "RM", f"c.{it}().with_index().map(|(_, r)| r).collect()", "Vec<R<'a>>",
          covers=[(M, it), (I, "with_index")])
    entry(f"RecordMatrix::{it}.next", "RM", f"c.{it}().next()", "Option<R<'a>>", covers=[(M, it)])
    entry(f"RecordMatrix::from_iter({it})", "RM",
          f"RecordMatrix::from_iter(c.size(), c.{it}().map(|r| r * 2.0)).unwrap()", "RM<'a>", covers=[(I, "from_iter"), (M, it)])
entry("RecordMatrix::from_iter error", "RM", "RecordMatrix::from_iter((9, 9), c.iter_row_major_as_records()).err()",
      "Option<InvalidRecordIteratorError<'a, f64, 2>>", covers=[(I, "from_iter")])
entry("RecordMatrix::from_iters", "RM",
      "{ let [a, _b]: [Result<RM<'a>, _>; 2] = RecordMatrix::from_iters(c.size(), c.iter_row_major_as_records().map(|r| [r, r + 1.0])); a.unwrap() }",
      "RM<'a>", covers=[(I, "from_iters")])
entry("RecordMatrix::unary", "RM", "c.unary(|x| x * 2.0, |_| 2.0)", "RM<'a>", covers=[(M, "unary")])
entry("RecordMatrix::binary", "RM", "c.binary(d, |x, y| x * y, |_, y| y, |x, _| x)", "RM<'a>", covers=[(M, "binary")])
entry("RecordMatrix::map", "RM", "c.map(|r| r * 2.0)", "Result<RM<'a>, InconsistentHistory<'a, f64>>", covers=[(M, "map")])
entry("RecordMatrix::map_with_index", "RM", "c.map_with_index(|r, _, _| r * 2.0)",
      "Result<RM<'a>, InconsistentHistory<'a, f64>>", covers=[(M, "map_with_index")])
entry("RecordMatrix::map_mut", "RM", "{ let mut t = c.map(|r| r).unwrap(); t.map_mut(|r| r * 2.0) }",
      "Result<(), InconsistentHistory<'a, f64>>", covers=[(M, "map_mut")])
entry("RecordMatrix::map_mut_with_index", "RM", "{ let mut t = c.map(|r| r).unwrap(); t.map_mut_with_index(|r, _, _| r * 2.0) }",
      "Result<(), InconsistentHistory<'a, f64>>", covers=[(M, "map_mut_with_index")])
entry("RecordMatrix::elementwise_multiply", "RM", "c.elementwise_multiply(d)", "RM<'a>", covers=[(M, "elementwise_multiply")])
entry("RecordMatrix::elementwise_divide", "RM", "c.elementwise_divide(d)", "RM<'a>", covers=[(M, "elementwise_divide")])
entry("RecordMatrix::do_reset", "RM", "RecordMatrix::do_reset(c.map(|r| r).unwrap())", "RM<'a>", covers=[(M, "do_reset")])
entry("RecordMatrix::do_unary_assign", "RM", "c.map(|r| r).unwrap().do_unary_assign(|x| x * 2.0, |_| 2.0)", "RM<'a>",
      covers=[(M, "do_unary_assign")])
entry("RecordMatrix::do_binary_left_assign", "RM",
      "c.map(|r| r).unwrap().do_binary_left_assign(d, |x, y| x * y, |_, y| y, |x, _| x)", "RM<'a>",
      covers=[(M, "do_binary_left_assign")])
entry("RecordMatrix::do_binary_right_assign", "RM",
      "c.do_binary_right_assign(d.map(|r| r).unwrap(), |x, y| x * y, |_, y| y, |x, _| x)", "RM<'a>",
      covers=[(M, "do_binary_right_assign")])
entry("&RecordMatrix + &RecordMatrix", "RM", "&*c + d", "RM<'a>", call_o="&c + d")
entry("RecordMatrix * f64", "RM", "&*c * 2.0", "RM<'a>", call_o="&c * 2.0")
entry("AsRecords::from_matrix_row_major", "RM", "AsRecords::from_matrix_row_major(&*c).collect()", "Vec<R<'a>>",
      call_o="AsRecords::from_matrix_row_major(&c).collect()", covers=[(I, "from_matrix_row_major")])
entry("AsRecords::from_matrix_column_major", "RM", "AsRecords::from_matrix_column_major(&*c).collect()", "Vec<R<'a>>",
      call_o="AsRecords::from_matrix_column_major(&c).collect()", covers=[(I, "from_matrix_column_major")])


# ---- conversions (`From` / `Into`) between records and 0-dimensional record tensors, iterators ----
# keys of `covers` for impls: (file, "impl From<SRC> for DST") with whitespace removed
def impl_key(src, dst):
    return re.sub(r"\s+", "", f"From<{src}> for {dst}")


F_T0_R = (M, impl_key("RecordTensor<'a, T, S, 0>", "Record<'a, T>"))
F_RT0_R = (M, impl_key("&RecordTensor<'a, T, S, 0>", "Record<'a, T>"))
F_R_T0 = (M, impl_key("Record<'a, T>", "RecordTensor<'a, T, Tensor<(T, Index), 0>, 0>"))
F_RR_T0 = (M, impl_key("&Record<'a, T>", "RecordTensor<'a, T, Tensor<(T, Index), 0>, 0>"))
F_AS_WI = (I, impl_key("AsRecords<'a, I, T>", "WithIndex<AsRecords<'a, WithIndex<I>, T>>"))
entry("Record::from(RecordTensor<0>)", "RT0", "Record::from(c)", "R<'a>", recv="o", covers=[F_T0_R])
entry("RecordTensor<0>.into() -> Record", "RT0", "c.into()", "R<'a>", recv="o", covers=[F_T0_R])
entry("Record::from(&RecordTensor<0>)", "RT0", "Record::from(&*c)", "R<'a>", call_o="Record::from(&c)", covers=[F_RT0_R],
      doc="`A zero dimensional record tensor can be converted losslessly into a record`: a copy, tied to the tape only")
entry("(&RecordTensor<0>).into() -> Record", "RT0", "(&*c).into()", "R<'a>", call_o="(&c).into()", covers=[F_RT0_R])
entry("RecordTensor<0>::from(Record)", "R", "RecordTensor::from(c.clone())", "RT0<'a>", covers=[F_R_T0])
entry("Record.into() -> RecordTensor<0>", "R", "c.clone().into()", "RT0<'a>", covers=[F_R_T0])
entry("RecordTensor<0>::from(&Record)", "R", "RecordTensor::from(&*c)", "RT0<'a>", call_o="RecordTensor::from(&c)", covers=[F_RR_T0])
entry("(&Record).into() -> RecordTensor<0>", "R", "(&*c).into()", "RT0<'a>", call_o="(&c).into()", covers=[F_RR_T0])
entry("WithIndex::from(AsRecords)", "RT",
      "{ let w: easy_ml::matrices::iterators::WithIndex<_> = c.iter_as_records().into(); w.map(|(_, r)| r).collect() }",
      "Vec<R<'a>>", covers=[F_AS_WI])

# entry points that hand out a *borrow of the container* by design (a view / an accessor over
# `&self`): their result may not escape the borrow; listed so that the coverage scan knows them
BORROWING = [(M, "view"), (M, "index"), (M, "index_by")]

# ---- round trips: the container is free again once the iterator / access is gone ------------------
ROUND_TRIPS = [
    ("roundtrip RecordMatrix column major: collect then mutate", "RM",
     "fn probe<'a>(c: &mut RM<'a>) -> Vec<R<'a>> {\n    let v: Vec<R<'a>> = c.iter_column_major_as_records().collect();\n"
     "    c.unary_assign(|x| x + 1.0, |_| 1.0);\n    v\n}"),
    ("roundtrip RecordMatrix row major: collect then mutate", "RM",
     "fn probe<'a>(c: &mut RM<'a>) -> Vec<R<'a>> {\n    let v: Vec<R<'a>> = c.iter_row_major_as_records().collect();\n"
     "    c.unary_assign(|x| x + 1.0, |_| 1.0);\n    v\n}"),
    ("roundtrip RecordTensor: collect then mutate", "RT",
     "fn probe<'a>(c: &mut RT<'a>) -> Vec<R<'a>> {\n    let v: Vec<R<'a>> = c.iter_as_records().collect();\n"
     "    c.unary_assign(|x| x + 1.0, |_| 1.0);\n    v\n}"),
    ("roundtrip RecordMatrix column major: x = from_iter(x.iter…)", "RM",
     "fn probe<'a>(mut x: RM<'a>) -> RM<'a> {\n    x = RecordMatrix::from_iter((2, 2), x.iter_column_major_as_records().map(|r| r + r)).unwrap();\n    x\n}"),
    ("roundtrip RecordMatrix row major: x = from_iter(x.iter…)", "RM",
     "fn probe<'a>(mut x: RM<'a>) -> RM<'a> {\n    x = RecordMatrix::from_iter((2, 2), x.iter_row_major_as_records().map(|r| r + r)).unwrap();\n    x\n}"),
    ("roundtrip RecordTensor: x = from_iter(x.iter…)", "RT",
     "fn probe<'a>(mut x: RT<'a>) -> RT<'a> {\n    x = RecordTensor::from_iter(x.shape(), x.iter_as_records().map(|r| r + r)).unwrap();\n    x\n}"),
    ("roundtrip RecordMatrix: records outlive the dropped container", "RM",
     "fn probe<'a>(list: &'a Tape) -> (Vec<R<'a>>, Vec<R<'a>>, R<'a>) {\n    let x = mk_rm(list);\n"
     "    let out = (x.iter_column_major_as_records().collect(), x.iter_row_major_as_records().collect(), x.get_as_record(0, 0));\n"
     "    drop(x);\n    out\n}"),
    ("roundtrip RecordTensor: records outlive the dropped container", "RT",
     "fn probe<'a>(list: &'a Tape) -> (Vec<R<'a>>, R<'a>, Option<R<'a>>) {\n    let mut x = mk_rt(list);\n"
     "    let a = x.iter_as_records().collect();\n    let b = x.index().get_as_record([0, 0]);\n"
     "    let c = TensorAccess::from(&mut x, [\"c\", \"r\"]).try_get_as_record([1, 1]);\n    drop(x);\n    (a, b, c)\n}"),
    ("roundtrip RecordTensor: record from an exclusive access, then mutate", "RT",
     "fn probe<'a>(x: &mut RT<'a>) -> R<'a> {\n    let picked = {\n        let access = TensorAccess::from(&mut *x, [\"c\", \"r\"]);\n"
     "        access.try_get_as_record([1, 0]).unwrap()\n    };\n    x.unary_assign(|v| v * 2.0, |_| 2.0);\n    picked * picked\n}"),
    ("roundtrip RecordTensor<0>: the converted record outlives the dropped container", "RT0",
     "fn probe<'a>(list: &'a Tape) -> (R<'a>, R<'a>) {\n    let x = mk_rt0(list);\n    let a = Record::from(&x);\n"
     "    let b: R<'a> = (&x).into();\n    drop(x);\n    (a, b)\n}"),
    ("roundtrip RecordTensor<0>: convert, then mutate the container while the record is used", "RT0",
     "fn probe<'a>(x: &mut RT0<'a>) -> R<'a> {\n    let r = Record::from(&*x);\n    x.unary_assign(|v| v * 2.0, |_| 2.0);\n    r * r\n}"),
    ("roundtrip Record -> RecordTensor<0> -> Record", "R",
     "fn probe<'a>(x: &R<'a>) -> R<'a> {\n    let t: RT0<'a> = x.into();\n    let back = Record::from(&t);\n    drop(t);\n    back\n}"),
    ("roundtrip Record: unary result outlives the operand binding", "R",
     "fn probe<'a>(list: &'a Tape) -> R<'a> {\n    let x = Record::variable(0.5, list);\n    x.unary(|v| v.tanh(), |v| 1.0 / (v.cosh() * v.cosh()))\n}"),
]

# ---- closures: lifetimes in closure-parameter bounds ----------------------------------------------
# Every public method of Record / RecordTensor / RecordMatrix that takes a closure.  For closures over
# *records* (`map*`) the documented bound is `impl Fn(Record<'a, T>, …) -> Record<'a, T>` with the
# tape lifetime of the container: a closure may capture another `Record<'a, _>` of the same tape and
# combine it with its argument, and a caller may pass on its own non-higher-ranked
# `F: Fn(Record<'a, f64>, …) -> Record<'a, f64>`.  (An elided lifetime inside the `Fn` bound would make
# it higher-ranked, `for<'r> Fn(Record<'r, T>) -> Record<'r, T>`, and reject both.)
# For closures over plain numbers (`unary`, `binary`, `*_assign`, `do_*`) the closure may capture
# numbers taken from another record.
# The rows are not written by hand: `closure_rows` synthesizes them from the signatures found in the sources.
# closure-taking methods whose closures see no tape lifetime at all (Trace; TensorAccess over plain elements)
CLOSURES_WITHOUT_TAPE = [(D, "derivative"), (X, "map"), (X, "map_with_index"), (X, "map_mut"), (X, "map_mut_with_index")]


# ------------------------------------------------------------------------------------------
# closure-taking methods, regenerated from the source signatures (scan -> table -> probes)
# ------------------------------------------------------------------------------------------

OWNER_KIND = {"Record": "R", "RecordTensor": "RT", "RecordMatrix": "RM"}
TAPELESS_OWNERS = {"Trace"}      # no tape lifetime anywhere in the type: nothing to probe


def scan_closure_signatures(repo):
    """Every `pub fn` with an `impl Fn…(…)` parameter in the record modules, with its owner type (nearest
    enclosing `impl … Owner<` header), receiver, parameters and closure shapes."""
    sigs = []
    for rel in (D, M, I):
        path = os.path.join(repo, rel)
        if not os.path.exists(path):
            continue
        t = gen_structs.strip_comments_and_strings(open(path).read())
        headers = [(m.start(), m.group(1)) for m in re.finditer(r"\bimpl\s*<[^{;]*?>\s*(\w+)\s*<", t)]
        for m in re.finditer(r"pub fn\s+(\w+)\s*(<[^(]*>)?\s*\(", t):
            i = m.end() - 1
            e = gen_structs.match_close(t, i, "(", ")")
            params = [re.sub(r"\s+", " ", p).strip() for p in gen_structs.split_top(t[i + 1:e]) if p.strip()]
            if not any(re.search(r"\bimpl\s+Fn(Mut|Once)?\s*\(", p) for p in params):
                continue
            owner = None
            for pos, name in headers:
                if pos < m.start():
                    owner = name
            sigs.append({"file": rel, "name": m.group(1), "owner": owner, "params": params,
                         "line": t[:m.start()].count("\n") + 1})
    return sigs


def concrete(ty, dim="2"):
    """the signature's generic types at the probe's concrete instantiation"""
    # the documented bound names the tape lifetime, whatever the signature under test spells
    ty = re.sub(r"Record<(?:'\w+,\s*)?T>", "R<'a>", ty)
    ty = re.sub(r"\[usize;\s*D\]", f"[usize; {dim}]", ty)
    ty = re.sub(r"\b(Row|Column)\b", "usize", ty)
    ty = re.sub(r"\bT\b", "f64", ty)
    return ty


def synthesize_closure_probe(sig):
    """-> dict like the rows of CLOSURES, or None if a parameter has a shape this generator does not know"""
    kind = OWNER_KIND.get(sig["owner"])
    if kind is None:
        return None
    ctype = KIND[kind][0]
    params = list(sig["params"])
    recv_src = params.pop(0) if params and re.fullmatch(r"(&(mut )?)?(mut )?self", params[0]) else None
    if recv_src is None:
        return None
    recv = {"&self": f"&{ctype}", "&mut self": f"&mut {ctype}", "self": ctype, "mut self": ctype}.get(recv_src)
    if recv is None:
        return None
    args, captures, bounds, over_records = [], [], [], False
    for p in params:
        pname, _, pty = p.partition(":")
        pty = pty.strip()
        m = re.fullmatch(r"impl\s+(Fn(?:Mut|Once)?)\s*\((.*)\)\s*->\s*(.*)", pty)
        if m:
            arg_tys = [a.strip() for a in gen_structs.split_top(m.group(2))]
            names = [f"a{j}" for j in range(len(arg_tys))]
            rec = [n for n, a in zip(names, arg_tys) if "Record<" in a]
            if rec:
                over_records = True
                body = f"{rec[0]} * k + k"
                bounds.append(f"{m.group(1)}({', '.join(concrete(a) for a in arg_tys)}) -> {concrete(m.group(3))}")
            else:
                used = [n for n, a in zip(names, arg_tys) if re.fullmatch(r"T", a)]
                body = " * ".join(used + ["kn"])
                bounds.append(None)
            shown = [n if n in (rec or used) else "_" + n for n in names]
            captures.append(f"|{', '.join(shown)}| {body}")
            args.append(None)          # placeholder: filled per variant
            continue
        if re.fullmatch(r"&\s*Record(Tensor|Matrix)?<'a,.*>", pty):
            args.append("d")
        elif re.fullmatch(r"&mut\s*Record(Tensor|Matrix)<'a,.*>", pty):
            args.append("&mut d.map(|r| r).unwrap()")
        elif re.fullmatch(r"Record(Tensor|Matrix)<'a,.*>", pty):
            args.append("d.map(|r| r).unwrap()")
        elif re.fullmatch(r"Record<'a,.*>", pty):
            args.append("d.clone()")
        else:
            return None
    return {"name": f"{sig['owner']}::{sig['name']}", "kind": kind, "recv": recv, "args": args, "captures": captures,
            "bounds": bounds, "over_records": over_records, "covers": [(sig["file"], sig["name"])],
            "source": f"{sig['file']}:{sig['line']}"}


def closure_rows(repo):
    """(rows synthesized from the sources, signatures the generator could not handle)"""
    rows, unknown = [], []
    for sig in scan_closure_signatures(repo):
        if sig["owner"] in TAPELESS_OWNERS:
            continue
        row = synthesize_closure_probe(sig)
        if row is None:
            unknown.append((sig["file"], f"{sig['owner']}::{sig['name']} (closure parameter; signature not understood)"))
        else:
            rows.append(row)
    return rows, unknown


# ------------------------------------------------------------------------------------------
# three-step probes: borrowed source x mutating method x result that outlives the source borrow
# ------------------------------------------------------------------------------------------
# Documented: a record container may be built with `from_existing` over a source that only BORROWS its
# data (`&mut Tensor`, a range over `&mut RecordTensor`, …); every `&mut self` / `self` method may be
# called on it; and whatever is then read out of it (records, a mapped container) is tied to the tape
# `'a` only — it may leave the function in which the borrowed data lives.  The rows are synthesized from
# the signatures (every `pub fn` of RecordTensor / RecordMatrix with a `&mut self` / `self` receiver or a
# by-value `Self` parameter).

SOURCES = {
    "RT": [
        ("owned", "let raw = Tensor::from([(\"r\", 2), (\"c\", 2)], vec![(1.0, 0usize); 4]);",
         "RecordTensor::from_existing(Some(list), TensorView::from(raw))"),
        ("mut_ref", "let mut raw = Tensor::from([(\"r\", 2), (\"c\", 2)], vec![(1.0, 0usize); 4]);",
         "RecordTensor::from_existing(Some(list), TensorView::from(&mut raw))"),
        ("range_over_mut_tensor", "let mut raw = Tensor::from([(\"r\", 2), (\"c\", 2)], vec![(1.0, 0usize); 4]);",
         "RecordTensor::from_existing(Some(list), TensorView::from(TensorRange::from(&mut raw, [(\"r\", 0..1)]).unwrap()))"),
        ("range_over_mut_container", "let mut all = mk_rt(list);",
         "RecordTensor::from_existing(Some(list), TensorView::from(TensorRange::from(&mut all, [(\"r\", 0..1)]).unwrap()))"),
    ],
    "RM": [
        ("owned", "let raw = Matrix::from(vec![vec![(1.0, 0usize); 2]; 2]);",
         "RecordMatrix::from_existing(Some(list), MatrixView::from(raw))"),
        ("mut_ref", "let mut raw = Matrix::from(vec![vec![(1.0, 0usize); 2]; 2]);",
         "RecordMatrix::from_existing(Some(list), MatrixView::from(&mut raw))"),
        ("range_over_mut_matrix", "let mut raw = Matrix::from(vec![vec![(1.0, 0usize); 2]; 2]);",
         "RecordMatrix::from_existing(Some(list), MatrixView::from(MatrixRange::from(&mut raw, 0..1, 0..2)))"),
        ("range_over_mut_container", "let mut all = mk_rm(list);",
         "RecordMatrix::from_existing(Some(list), MatrixView::from(MatrixRange::from(&mut all, 0..1, 0..2)))"),
    ],
}
EXTRACTS = {
    "RT": [("record", "R<'a>", "c.index().get_as_record([0, 0])"),
           ("records", "Vec<R<'a>>", "c.iter_as_records().collect()"),
           ("mapped_container", "RT<'a>", "c.map(|r| r * 2.0).unwrap()")],
    "RM": [("record", "R<'a>", "c.get_as_record(0, 0)"),
           ("records", "Vec<R<'a>>", "c.iter_column_major_as_records().collect()"),
           ("mapped_container", "RM<'a>", "c.map(|r| r * 2.0).unwrap()")],
}


def scan_mutating_methods(repo):
    """signatures of every `pub fn` of RecordTensor / RecordMatrix that takes `&mut self`, `self`, or a
    by-value `Self`"""
    out = []
    path = os.path.join(repo, M)
    if not os.path.exists(path):
        return out
    t = gen_structs.strip_comments_and_strings(open(path).read())
    headers = [(m.start(), m.group(1)) for m in re.finditer(r"\bimpl\s*<[^{;]*?>\s*(\w+)\s*<", t)]
    for m in re.finditer(r"pub fn\s+(\w+)\s*(<[^(]*>)?\s*\(", t):
        i = m.end() - 1
        e = gen_structs.match_close(t, i, "(", ")")
        params = [re.sub(r"\s+", " ", p).strip() for p in gen_structs.split_top(t[i + 1:e]) if p.strip()]
        owner = None
        for pos, name in headers:
            if pos < m.start():
                owner = name
        if owner not in ("RecordTensor", "RecordMatrix") or not params:
            continue
        by_value_self = any(re.fullmatch(r"(mut )?\w+: Self", p) for p in params)
        other_container = any(re.fullmatch(r"(mut )?\w+: (&mut )?Record(Tensor|Matrix)<'a,.*>", p) for p in params)
        if params[0] in ("&mut self", "self", "mut self") or by_value_self or (params[0] == "&self" and other_container):
            out.append({"file": M, "name": m.group(1), "owner": owner, "params": params,
                        "line": t[:m.start()].count("\n") + 1})
    return out


def synthesize_step(sig):
    """-> (kind, statement acting on / rebinding `c`) or None"""
    kind = OWNER_KIND[sig["owner"]]
    params = list(sig["params"])
    args, ok = [], True
    recv = None
    if params[0] in ("&mut self", "self", "mut self", "&self"):
        recv = params.pop(0)
    rebinds = False
    for p in params:
        _pname, _, pty = p.partition(":")
        pty = pty.strip()
        m = re.fullmatch(r"impl\s+(Fn(?:Mut|Once)?)\s*\((.*)\)\s*->\s*(.*)", pty)
        if m:
            arg_tys = [a.strip() for a in gen_structs.split_top(m.group(2))]
            names = [f"a{j}" for j in range(len(arg_tys))]
            rec = [n for n, a in zip(names, arg_tys) if "Record<" in a]
            used = rec or [n for n, a in zip(names, arg_tys) if re.fullmatch(r"T", a)]
            body = f"{rec[0]} * k + k" if rec else " * ".join(used + ["kn"])
            shown = [n if n in used else "_" + n for n in names]
            args.append(f"|{', '.join(shown)}| {body}")
        elif pty == "Self":
            args.append("c")
        elif recv == "&self" and re.fullmatch(r"&mut\s*Record(Tensor|Matrix)<'a,.*>", pty):
            args.append("&mut c")          # the borrowed-source container is the right hand side
        elif recv == "&self" and re.fullmatch(r"Record(Tensor|Matrix)<'a,.*>", pty):
            args.append("c")
            rebinds = True
        elif re.fullmatch(r"&\s*Record(Tensor|Matrix)?<'a,.*>", pty):
            args.append("d")
        elif re.fullmatch(r"\[Dimension; D\]", pty):
            args.append("[\"x\", \"y\"]")
        else:
            ok = False
    if not ok:
        return None
    call_args = ", ".join(args)
    if recv == "&self":
        return kind, (f"let mut c = d.{sig['name']}({call_args});" if rebinds else f"let _ = d.{sig['name']}({call_args});")
    if recv == "&mut self":
        return kind, f"let _ = c.{sig['name']}({call_args});"
    if recv in ("self", "mut self"):
        return kind, f"let mut c = c.{sig['name']}({call_args});"
    return kind, f"let mut c = {sig['owner']}::{sig['name']}({call_args});"


def three_step_rows(repo):
    rows, unknown = [], []
    for sig in scan_mutating_methods(repo):
        step = synthesize_step(sig)
        if step is None:
            unknown.append((sig["file"], f"{sig['owner']}::{sig['name']} (mutating method; signature not understood)"))
            continue
        kind, stmt = step
        for sname, setup, construct in SOURCES[kind]:
            for ename, ety, extract in EXTRACTS[kind]:
                body = (f"fn probe<'a>(list: &'a Tape, d: &{KIND[kind][0]}, other: &R<'a>) -> {ety} {{\n"
                        "    let k: R<'a> = other.clone();\n    let kn: f64 = other.number;\n"
                        f"    {setup}\n    let mut c = {construct};\n    {stmt}\n    {extract}\n}}\nfn main() {{}}\n")
                rows.append({"name": f"{sig['owner']}_{sig['name']}_{sig['line']}_{sname}_{ename}", "body": body,
                             "rule": f"a container built with from_existing over a `{sname}` source, `{sig['owner']}::{sig['name']}` "
                                     f"({sig['file']}:{sig['line']}) called on it, and the {ename} then taken from it is tied to the "
                                     "tape only (it leaves the function that owns the borrowed data)"})
    return rows, unknown


# ------------------------------------------------------------------------------------------
# view-returning convenience methods: the view borrows `self` only, never its other arguments
# ------------------------------------------------------------------------------------------
# Every `pub fn` of Tensor / TensorView / Matrix / MatrixView / RecordTensor / RecordMatrix with a
# `&self` / `&mut self` receiver whose result borrows (its type mentions `&`, a lifetime, or a partition
# type) and which takes further reference / slice / array arguments (dimension names, (name, range)
# pairs, index arrays).  Documented: the returned view borrows the container; the names / ranges are
# read once.  Per method: a must-compile program in which every non-self argument lives in an inner
# scope that ends before the view is used, and a must-not-compile program in which the view outlives
# the container.  Synthesized from the signatures; an argument type outside the vocabulary below is
# reported.

VIEW_FILES = ["src/tensors/mod.rs", "src/tensors/views.rs", "src/matrices/mod.rs", "src/matrices/views.rs", M]
VIEW_OWNERS = {
    "Tensor": ("Tensor<f64, 2>", "Tensor::from([(\"r\", 2), (\"c\", 2)], vec![1.0, 2.0, 3.0, 4.0])", False),
    "TensorView": ("TensorView<f64, Tensor<f64, 2>, 2>",
                   "TensorView::from(Tensor::from([(\"r\", 2), (\"c\", 2)], vec![1.0, 2.0, 3.0, 4.0]))", False),
    "Matrix": ("Matrix<f64>", "Matrix::from(vec![vec![1.0, 2.0], vec![3.0, 4.0]])", False),
    "MatrixView": ("MatrixView<f64, Matrix<f64>>", "MatrixView::from(Matrix::from(vec![vec![1.0, 2.0], vec![3.0, 4.0]]))", False),
    "RecordTensor": ("RT<'static>", "RecordTensor::constants(Tensor::from([(\"r\", 2), (\"c\", 2)], vec![1.0, 2.0, 3.0, 4.0]))", True),
    "RecordMatrix": ("RM<'static>", "RecordMatrix::constants(Matrix::from(vec![vec![1.0, 2.0], vec![3.0, 4.0]]))", True),
}
# argument vocabulary: type pattern -> (statements placed in the inner scope, expression)
VIEW_ARGS = [
    (r"&\s*\[Dimension\]", ("let names: Vec<Dimension> = vec![\"c\"];", "&names")),
    (r"\[Dimension;\s*D\]", ("let names_array: [Dimension; 2] = [\"c\", \"r\"];", "names_array")),
    (r"\[\(Dimension,\s*R\);\s*P\]", ("let ranges = [(\"r\", 0..1)];", "ranges")),
    (r"\[\(Dimension,\s*usize\);\s*1\]", ("let picked = [(\"r\", 0)];", "picked")),
    (r"\[\(usize,\s*Dimension\);\s*1\]", ("let extra = [(0, \"x\")];", "extra")),
    (r"&\s*\[(Row|Column|usize)\]", ("let cuts: Vec<usize> = vec![1];", "&cuts")),
    (r"\[usize;\s*D\]", ("let index = [0, 0];", "index")),
    (r"(Row|Column|usize)", ("", "1")),
]


def scan_view_methods(repo):
    out = []
    for rel in VIEW_FILES:
        path = os.path.join(repo, rel)
        if not os.path.exists(path):
            continue
        t = gen_structs.remove_test_modules_and_fn_bodies(gen_structs.strip_comments_and_strings(open(path).read()))
        headers = [(m.start(), m.group(1)) for m in re.finditer(r"\bimpl\s*<[^{;]*?>\s*(\w+)\s*<", t)]
        for m in re.finditer(r"pub fn\s+(\w+)\s*(<[^(]*>)?\s*\(", t):
            i = m.end() - 1
            e = gen_structs.match_close(t, i, "(", ")")
            params = [re.sub(r"\s+", " ", p).strip() for p in gen_structs.split_top(t[i + 1:e]) if p.strip()]
            k, depth = e + 1, 0
            while k < len(t) and not (t[k] in "{;" and depth == 0):
                if t[k] in "<([":
                    depth += 1
                elif t[k] in ")]" or (t[k] == ">" and t[k - 1] != "-"):
                    depth -= 1
                k += 1
            ret = re.sub(r"\s+", " ", t[e + 1:k]).strip().split(" where ")[0]
            if not params or not re.fullmatch(r"&(\'\w+ )?(mut )?self", params[0]):
                continue
            borrows = bool(re.search(r"&|'\w|MatrixPart|MatrixQuadrants", ret))
            others = [p.split(":", 1) for p in params[1:]]
            if not borrows or not any(("&" in ty or "[" in ty) for _n, ty in others):
                continue
            owner = None
            for pos, name in headers:
                if pos < m.start():
                    owner = name
            if owner not in VIEW_OWNERS:
                continue
            if VIEW_OWNERS[owner][2] and not re.search(r"TensorAccess|TensorView|MatrixView", ret):
                continue      # record containers: only their view / accessor methods (the rest is in ENTRIES)
            out.append({"file": rel, "name": m.group(1), "owner": owner, "params": params, "ret": ret,
                        "line": t[:m.start()].count("\n") + 1})
    return out


def view_rows(repo):
    rows, unknown = [], []
    for sig in scan_view_methods(repo):
        oty, ctor, _is_record = VIEW_OWNERS[sig["owner"]]
        mutable = "mut " in sig["params"][0]
        setup, args, ok = [], [], True
        for p in sig["params"][1:]:
            _n, _, ty = p.partition(":")
            ty = re.sub(r"'\w+\s*", "", ty.strip())
            for pat, (stmt, expr) in VIEW_ARGS:
                if re.fullmatch(pat, ty):
                    if stmt and stmt not in setup:
                        setup.append(stmt)
                    args.append(expr)
                    break
            else:
                ok = False
        if not ok:
            unknown.append((sig["file"], f"{sig['owner']}::{sig['name']} (view-returning method; argument type not understood)"))
            continue
        call = f"c.{sig['name']}({', '.join(args)})"
        recv_ty = f"&mut {oty}" if mutable else f"&{oty}"
        inner = "\n        ".join(setup)
        ok_body = (f"fn probe(c: {recv_ty}) {{\n    let view = {{\n        {inner}\n        {call}\n    }};\n"
                   "    // the names / ranges / indexes are gone, the view is still in use\n    drop(view);\n}\nfn main() {}\n")
        bad_body = ("fn main() {\n    let view;\n    {\n"
                    f"        let {'mut ' if mutable else ''}owner: {oty} = {ctor};\n        let c = {'&mut owner' if mutable else '&owner'};\n"
                    f"        {inner}\n        view = {call};\n    }}\n    drop(view);\n}}\n")
        key = f"{sig['owner']}_{sig['name']}_{sig['line']}"
        rows.append({"name": key, "ok": ok_body, "bad": bad_body, "sig": sig})
    return rows, unknown


def pid(s):
    return re.sub(r"[^A-Za-z0-9]+", "_", s).strip("_")[:140]


def generate(workdir, repo=None):
    repo = repo or os.environ.get("EASYML_REPO", "/repo")
    """-> [{"id", "path", "rule", "expect": (verdict, [codes]), "family": "lifetime…"}]"""
    os.makedirs(workdir, exist_ok=True)
    rows = []

    def emit(name, rule, expect, body, family):
        name = f"{len(rows):03d}_{name}"
        path = os.path.join(workdir, pid(name) + ".rs")
        header = f"// rule: {rule}\n// expect: {expect[0]}" + (" " + ",".join(expect[1]) if expect[1] else "") + "\n"
        with open(path, "w") as f:
            f.write(header + PRELUDE + body)
        rows.append({"id": pid(name), "path": path, "rule": rule, "expect": expect, "family": family})

    for e in ENTRIES:
        ctype, mk = KIND[e["kind"]]
        for rk in e["recv"]:
            rty, _ = RECV[rk]
            rty = rty.replace("{C}", ctype)
            call = e["call_o"] if (rk == "o" and e["call_o"]) else e["call"]
            body = (f"fn probe<'a>(c: {rty}, d: &{ctype}, list: &'a Tape) -> {e['result']} {{\n    {call}\n}}\n"
                    "fn main() {}\n")
            emit(f"life_escape_{e['name']}_{rk}",
                 f"[lifetime] the result of `{e['name']}` (receiver `{rty}`) is tied to the tape `'a` only, not to the borrow "
                 "of the receiver" + (f" — {e['doc']}" if e["doc"] else ""),
                 ("compile", []), body, "lifetime.escapes-borrow")
        if e["tape"]:
            rk = e["recv"][0]
            _, rexpr = RECV[rk]
            call = (e["call_o"] if (rk == "o" and e["call_o"]) else e["call"]).replace("'a", "'_")
            out_ty = e["result"].replace("'a", "'_")
            body = (f"fn main() {{\n    let out: {out_ty};\n    {{\n        let tape: Tape = WengertList::new();\n        let list = &tape;\n"
                    f"        let mut owner = {mk}(list);\n        let other = {mk}(list);\n        let d = &other;\n"
                    f"        let c = {rexpr};\n        out = {{ {call} }};\n    }}\n    let _use = &out;\n}}\n")
            # the declared result type is not used here: inference decides; the tape must still be alive
            emit(f"life_tape_{e['name']}",
                 f"[lifetime] the result of `{e['name']}` cannot outlive the tape", ("fail", ["E0597", "E0505", "E0716"]),
                 body, "lifetime.outlives-tape")
    rows_auto, _unknown = closure_rows(repo)
    for cl in rows_auto:
        ctype, mk = KIND[cl["kind"]]
        it = iter(cl["captures"])
        call_args = ", ".join(a if a is not None else next(it) for a in cl["args"])
        body = (f"fn probe<'a>(c: {cl['recv']}, d: &{ctype}, other: &R<'a>) {{\n"
                "    let k: R<'a> = other.clone();\n    let kn: f64 = other.number;\n"
                f"    let _result = c.{cl['name'].split('::')[1]}({call_args});\n}}\nfn main() {{}}\n")
        emit(f"life_closure_capture_{cl['name']}_{cl['source'].split(':')[1]}",
             f"[lifetime] the closure passed to `{cl['name']}` ({cl['source']}) may capture "
             + ("another record of the same tape and combine it with its argument" if cl["over_records"] else
                "numbers taken from another record"),
             ("compile", []), body, "lifetime.closure-captures")
        if cl["over_records"]:
            gens, fargs, k = [], [], 0
            for a in cl["args"]:
                if a is None:
                    gens.append(f"F{k}: {cl['bounds'][k]}")
                    fargs.append(f"f{k}")
                    k += 1
            it = iter(fargs)
            call_args = ", ".join(a if a is not None else next(it) for a in cl["args"])
            fparams = ", ".join(f"{f}: F{j}" for j, f in enumerate(fargs))
            body = (f"fn probe<'a, {', '.join(gens)}>(c: {cl['recv']}, d: &{ctype}, {fparams}) {{\n"
                    f"    let _result = c.{cl['name'].split('::')[1]}({call_args});\n}}\nfn main() {{}}\n")
            emit(f"life_closure_passthrough_{cl['name']}_{cl['source'].split(':')[1]}",
                 f"[lifetime] `{cl['name']}` ({cl['source']}) accepts a caller's `{gens[0]}` (the bound names the tape "
                 "lifetime, it is not higher-ranked)", ("compile", []), body, "lifetime.closure-bound")
            recv_expr = "&mut x" if cl["recv"].startswith("&mut") else ("x" if not cl["recv"].startswith("&") else "&x")
            it = iter(cl["captures"])
            call_args = ", ".join(a if a is not None else next(it) for a in cl["args"])
            body = ("fn main() {\n    let tape: Tape = WengertList::new();\n    let list = &tape;\n"
                    f"    let mut x = {mk}(list);\n    let other = {mk}(list);\n    let d = &other;\n"
                    f"    let k = Record::variable(5.0, list);\n    let c = {recv_expr};\n"
                    f"    let _ = c.{cl['name'].split('::')[1]}({call_args});\n}}\n")
            emit(f"life_closure_usage_{cl['name']}_{cl['source'].split(':')[1]}",
                 f"[lifetime] documented usage of `{cl['name']}` ({cl['source']}): combine every element with a separately "
                 "created record of the same WengertList", ("compile", []), body, "lifetime.closure-usage")
    vrows, _vunknown = view_rows(repo)
    for vr in vrows:
        sg = vr["sig"]
        emit(f"life_view_args_{vr['name']}", f"[lifetime] the view returned by `{sg['owner']}::{sg['name']}` ({sg['file']}:{sg['line']}) borrows only the container: its other arguments may live in an inner scope that ends before the view is used", ("compile", []), vr["ok"], "lifetime.view-arguments")
        emit(f"life_view_outlives_{vr['name']}", f"[lifetime] the view returned by `{sg['owner']}::{sg['name']}` cannot outlive the container", ("fail", ["E0597", "E0505", "E0716"]), vr["bad"], "lifetime.view-outlives-container")
    rows3, _unknown3 = three_step_rows(repo)
    for r3 in rows3:
        emit(f"life_three_step_{r3['name']}", "[lifetime] " + r3["rule"], ("compile", []), r3["body"], "lifetime.three-step")
    for name, _kind, src in ROUND_TRIPS:
        emit(f"life_{name}", f"[lifetime] {name}", ("compile", []), src + "\nfn main() {}\n", "lifetime.round-trip")
    return rows


# ------------------------------------------------------------------------------------------
# coverage of the table
# ------------------------------------------------------------------------------------------

CARRIES = re.compile(r"Record|AsRecords|Self\b|WengertList|InconsistentHistory|InvalidRecordIteratorError")
NO_LIFETIME = re.compile(r"^(->\s*)?(Option<)?(Tensor<|Matrix<)?Derivatives<")


def scan_entry_points(repo):
    """(file, fn name) of every `pub fn` of the record modules whose result type carries a tape lifetime"""
    found = set()
    for rel in (D, M, I, X):
        path = os.path.join(repo, rel)
        if not os.path.exists(path):
            continue
        t = gen_structs.strip_comments_and_strings(open(path).read())
        for m in re.finditer(r"pub fn\s+(\w+)\s*(<[^(]*>)?\s*\(", t):
            i = m.end() - 1
            e = gen_structs.match_close(t, i, "(", ")")
            k = e + 1
            depth = 0
            while k < len(t) and not (t[k] in "{;" and depth == 0):
                if t[k] in "<([":
                    depth += 1
                elif t[k] in ")]" or (t[k] == ">" and t[k - 1] != "-"):
                    depth -= 1
                k += 1
            ret = re.sub(r"\s+", " ", t[e + 1:k]).strip()
            ret = ret.split(" where ")[0]
            if not ret.startswith("->") or not CARRIES.search(ret) or NO_LIFETIME.match(ret):
                continue
            if rel == X and "as_record" not in m.group(1):
                continue
            if rel == D and m.group(1) == "new":
                continue
            found.add((rel, m.group(1)))
    return found


IMPL_CARRIES = re.compile(r"Record|AsRecords|WengertList")


def scan_conversion_impls(repo):
    """(file, normalised header) of every `impl … From/Into/TryFrom<…> for …` under src/differentiation/** and
    src/tensors/indexing.rs whose source or target type carries a tape lifetime"""
    found = set()
    files = [X]
    for base, _dirs, names in os.walk(os.path.join(repo, "src", "differentiation")):
        for n in names:
            if n.endswith(".rs"):
                files.append(os.path.relpath(os.path.join(base, n), repo))
    files.append(D)
    for rel in sorted(set(files)):
        path = os.path.join(repo, rel)
        if not os.path.exists(path):
            continue
        t = gen_structs.strip_comments_and_strings(open(path).read())
        for m in re.finditer(r"\bimpl\s*(<[^{;]*?>)?\s*(?:std::convert::)?(From|Into|TryFrom)\s*<", t):
            i = m.end() - 1
            e = gen_structs.match_angle(t, i)
            src = t[i + 1:e]
            rest = t[e + 1:]
            fm = re.match(r"\s*for\s+([^{]*?)\s*(where\b|\{)", rest, flags=re.S)
            if not fm:
                continue
            dst = fm.group(1)
            if not (IMPL_CARRIES.search(src) or IMPL_CARRIES.search(dst)):
                continue
            found.add((rel, re.sub(r"\s+", "", f"{m.group(2)}<{src}> for {dst}")))
    return found


def scan_closure_methods(repo):
    """(file, fn name) of every `pub fn` of the record modules with an `impl Fn…(…)` parameter"""
    found = set()
    for rel in (D, M, I, X):
        path = os.path.join(repo, rel)
        if not os.path.exists(path):
            continue
        t = gen_structs.strip_comments_and_strings(open(path).read())
        for m in re.finditer(r"pub fn\s+(\w+)\s*(<[^(]*>)?\s*\(", t):
            i = m.end() - 1
            e = gen_structs.match_close(t, i, "(", ")")
            generics = m.group(2) or ""
            if re.search(r"\bFn(Mut|Once)?\s*\(", t[i:e + 1] + generics):
                found.add((rel, m.group(1)))
    return found


def coverage(repo):
    covered = set(BORROWING)
    for e in ENTRIES:
        covered |= set(e["covers"])
    found = scan_entry_points(repo) | scan_conversion_impls(repo)
    # closure-taking methods: the probe rows are synthesized from the signatures themselves; only a
    # signature the synthesizer does not understand (or an owner type it does not know) is reported
    rows_auto, unknown = closure_rows(repo)
    closure_covered = set(CLOSURES_WITHOUT_TAPE)
    for sig in scan_closure_signatures(repo):
        if sig["owner"] in TAPELESS_OWNERS:
            closure_covered.add((sig["file"], sig["name"]))
    for cl in rows_auto:
        closure_covered |= set(cl["covers"])
    closure_found = scan_closure_methods(repo)
    _rows3, unknown3 = three_step_rows(repo)
    _vrows, vunknown = view_rows(repo)
    missing = (sorted(found - covered) + sorted(unknown) + sorted(unknown3) + sorted(vunknown)
               + sorted((f, n + " (closure parameter)") for f, n in closure_found - closure_covered))
    return missing, len(found) + len(closure_found)


if __name__ == "__main__":
    missing, n = coverage(os.environ.get("EASYML_REPO", "/repo"))
    print(f"{n} entry points with a tape lifetime in their result; not in the table: {missing}")
    rows, unknown = closure_rows(os.environ.get("EASYML_REPO", "/repo"))
    print(len(rows), "closure-taking methods synthesized from their signatures;", len(unknown), "not understood:", unknown)
    print(len(generate("/tmp/c20_lifetimes_probe_dump")), "probes generated")
