"""C16 — thorough tier: the correspondence workload once more through a release build of
`emlv-C16` (see props/_own_release.py): the failure values (`None`, `Err`) are the same without
the dev profile's overflow checks."""
import os
import sys

sys.path.insert(0, os.path.dirname(os.path.abspath(__file__)))
import _own_release  # noqa: E402


def run(ctx):
    return _own_release.run(ctx, "C16", lambda op: op.startswith(("get", "mget", "range", "mask")))
