"""C16 — extra steps.

1. API surface (both tiers).  props/_surface_scan.py scans the source of the checkout under test
   for the PUBLIC fallible surface (name `try_*` or return type `Option<…>` / `Result<…>`; `pub
   fn`s and the methods of trait impls / `pub trait`s, every file — private and `pub(crate)`
   helpers are no API: renaming or splitting them is none of this check's business, they are only
   counted).  props/c16_surface.json says for each of
   them whether C16's correspondence drives it (then the named input-distribution counters of
   this very run must be positive, `.valid` and `.invalid` ones alike), another property does,
   or it is outside (not built / not
   a failure-reporting API).  A scanned function missing from the registry — a new fallible API,
   or one more copy-pasted impl block — is reported as `no-failing-input-found`; so are a
   registry entry whose function is gone and a `driven` entry whose counters are zero.
   The functions not driven by C16 are listed in the evidence (`api_surface.not_driven_by_C16`).
2. Thorough tier: the correspondence workload once more through a release build of `emlv-C16`
   (props/_own_release.py): the failure values (`None`, `Err`) are the same without the dev
   profile's overflow checks.
"""
import json
import os
import sys

sys.path.insert(0, os.path.dirname(os.path.abspath(__file__)))
import _own_release  # noqa: E402
import _surface_scan  # noqa: E402


def surface(ctx):
    reg_path = os.path.join(ctx["root"], "props", "c16_surface.json")
    reg = json.load(open(reg_path))["functions"]
    found, private = _surface_scan.scan(ctx["repo"], with_private=True)
    keys = {e["key"]: e for e in found}
    stats = (ctx.get("corr") or {}).get("stats", {})
    violations = []

    def nf(case, broken, **kw):
        v = {"case": case, "kind": "surface", "no_failing_input": True, "broken": broken}
        v.update(kw)
        violations.append(v)

    new = [e for e in found if e["key"] not in reg]
    for e in new[:6]:
        nf(f"fallible function not in props/c16_surface.json: {e['key']} (src/{e['file']}:{e['line']}) {e['returns']}",
           "API surface registry of C16: a fallible function of the crate that no check is known to drive",
           function=e)
    stale = [k for k in reg if k not in keys]
    for k in stale[:6]:
        nf(f"props/c16_surface.json names {k}, which the scan no longer finds",
           "API surface registry of C16: what it says about this function no longer checks anything")
    undriven = []
    for k, r in reg.items():
        if r["status"] != "driven" or k not in keys:
            continue
        for prefix in r["counters"]:
            hits = {c: n for c, n in stats.items() if c.startswith(prefix)}
            total = sum(hits.values())
            kinds_present = {c.rsplit(".", 1)[-1] for c in hits if c.rsplit(".", 1)[-1] in ("valid", "invalid")}
            missing_kind = [x for x in ("valid", "invalid")
                            if kinds_present and sum(n for c, n in hits.items() if c.endswith("." + x)) == 0]
            if total == 0 or missing_kind:
                undriven.append((k, prefix, missing_kind))
    for k, prefix, missing in undriven[:6]:
        nf(f"{k} is registered as driven by C16 but no generated operation counts under `{prefix}`"
           + (f" with {'/'.join(missing)} inputs" if missing else ""),
           "API surface registry of C16: a function listed as driven is not exercised by this run")
    by_status = {}
    for k, r in reg.items():
        by_status.setdefault(r["status"], []).append(k)
    not_driven = {s: sorted(f"{k} [{reg[k].get('property', '')}{': ' if reg[k].get('property') else ''}{reg[k].get('why', '')}]"
                            for k in ks) for s, ks in by_status.items() if s != "driven"}
    cov = {"api_surface": {
        "fallible_functions_found": len(found), "public": sum(1 for e in found if e["public"]),
        "driven_by_C16": len(by_status.get("driven", [])),
        "driven_elsewhere": len(by_status.get("other", [])),
        "private_or_pub_crate_not_keyed": len(private),
        "outside": len(by_status.get("outside", [])),
        "new_unlisted": [e["key"] for e in new], "stale_entries": stale,
        "registered_driven_but_not_exercised": [f"{k} ({p})" for k, p, _ in undriven],
        "not_driven_by_C16": not_driven}}
    ctx["log"](f"#stat C16 api-surface: {len(found)} public fallible fns, {len(by_status.get('driven', []))} driven by C16, "
               f"{len(by_status.get('other', []))} by other properties, "
               f"{len(by_status.get('outside', []))} outside ({len(private)} private / pub(crate) ones are not part of "
               f"the surface); new={len(new)} stale={len(stale)} "
               f"unexercised={len(undriven)}")
    return violations, cov


def run(ctx):
    violations, cov = surface(ctx)
    rel = _own_release.run(ctx, "C16", lambda op: op.startswith(("get", "mget", "range", "mask")))
    cov.update(rel.get("coverage", {}))
    return {"violations": violations + rel.get("violations", []), "coverage": cov, "samples": rel.get("samples", [])}
